//! Compile-time clause of C18: `Regex` is `Send + Sync`. This crate compiles iff that holds.
fn assert_send_sync<T: Send + Sync>() {}

pub fn regex_is_send_and_sync() {
    assert_send_sync::<regexml::Regex>();
}
