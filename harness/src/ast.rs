// Pattern AST with spelling choices, renderer to concrete syntax, structural helpers.
// The oracle evaluates the AST; the engine gets the rendered text.
use std::fmt::Write;

#[derive(Clone, Debug, PartialEq, Eq, Hash)]
pub enum ClassItem {
    Ch(char),
    Range(char, char),
    Esc(char),          // one of s S d D w W i I c C
    Prop(bool, String), // \p{..} (true) / \P{..} (false)
}

#[derive(Clone, Debug, PartialEq, Eq, Hash)]
pub struct ClassExpr {
    pub neg: bool,
    pub items: Vec<ClassItem>,
    pub sub: Option<Box<ClassExpr>>,
}

#[derive(Clone, Debug, PartialEq, Eq, Hash)]
pub enum Node {
    Empty,
    Char(char),
    Dot,
    Esc(char),          // multi-char escape outside class: s S d D w W i I c C
    Prop(bool, String), // \p{..} outside class
    Class(ClassExpr),
    Bol,
    Eol,
    Group(Box<Node>),   // capturing; numbered by position of the open paren
    NcGroup(Box<Node>), // (?: )
    Cat(Vec<Node>),
    Alt(Vec<Node>),
    // spell: 0 = shortest spelling (* + ? {n} {n,} {n,m}); 1 = always braces; 2 = braces, {n,n} for n==m
    Repeat { body: Box<Node>, min: usize, max: Option<usize>, greedy: bool, spell: u8 },
    Backref(usize),
}

pub const META: &[char] = &['\\', '|', '.', '-', '^', '?', '*', '+', '{', '}', '(', ')', '[', ']', '$'];

pub fn esc_lit(c: char, out: &mut String) {
    match c {
        '\n' => out.push_str("\\n"),
        '\r' => out.push_str("\\r"),
        '\t' => out.push_str("\\t"),
        c if META.contains(&c) => {
            out.push('\\');
            out.push(c)
        }
        _ => out.push(c),
    }
}

pub fn render_class(c: &ClassExpr, out: &mut String) {
    out.push('[');
    if c.neg {
        out.push('^');
    }
    for it in &c.items {
        match it {
            ClassItem::Ch(ch) => esc_lit(*ch, out),
            ClassItem::Range(a, b) => {
                esc_lit(*a, out);
                out.push('-');
                esc_lit(*b, out);
            }
            ClassItem::Esc(e) => {
                out.push('\\');
                out.push(*e)
            }
            ClassItem::Prop(pos, name) => {
                let _ = write!(out, "\\{}{{{}}}", if *pos { 'p' } else { 'P' }, name);
            }
        }
    }
    if let Some(s) = &c.sub {
        out.push('-');
        render_class(s, out);
    }
    out.push(']');
}

pub fn quant_str(min: usize, max: Option<usize>, greedy: bool, spell: u8) -> String {
    let mut sym = match (min, max, spell) {
        (0, None, 0) => "*".to_string(),
        (1, None, 0) => "+".to_string(),
        (0, Some(1), 0) => "?".to_string(),
        (n, None, _) => format!("{{{},}}", n),
        (n, Some(m), s) if n == m && s != 2 => format!("{{{}}}", n),
        (n, Some(m), _) => format!("{{{},{}}}", n, m),
    };
    if !greedy {
        sym.push('?')
    }
    sym
}

impl Node {
    pub fn render(&self) -> String {
        let mut s = String::new();
        self.r(&mut s, false);
        s
    }
    /// XSD rendering: grouping with plain parentheses only (caller guarantees no NcGroup / Backref /
    /// reluctant quantifier / anchors when it wants a pattern valid in both dialects).
    pub fn render_xsd(&self) -> String {
        let mut s = String::new();
        self.r(&mut s, true);
        s
    }
    pub fn is_atomic(&self) -> bool {
        matches!(
            self,
            Node::Char(_) | Node::Dot | Node::Esc(_) | Node::Prop(..) | Node::Class(_) | Node::Bol | Node::Eol | Node::Group(_) | Node::NcGroup(_) | Node::Backref(_)
        )
    }
    fn wrap(&self, out: &mut String, xsd: bool) {
        out.push_str(if xsd { "(" } else { "(?:" });
        self.r(out, xsd);
        out.push(')');
    }
    fn r(&self, out: &mut String, xsd: bool) {
        match self {
            Node::Empty => {}
            Node::Char(c) => esc_lit(*c, out),
            Node::Dot => out.push('.'),
            Node::Esc(e) => {
                out.push('\\');
                out.push(*e)
            }
            Node::Prop(pos, name) => {
                let _ = write!(out, "\\{}{{{}}}", if *pos { 'p' } else { 'P' }, name);
            }
            Node::Class(c) => render_class(c, out),
            Node::Bol => out.push('^'),
            Node::Eol => out.push('$'),
            Node::Group(b) => {
                out.push('(');
                b.r(out, xsd);
                out.push(')')
            }
            Node::NcGroup(b) => b.wrap(out, xsd),
            Node::Cat(v) => {
                for (i, n) in v.iter().enumerate() {
                    if matches!(n, Node::Alt(_) | Node::Cat(_)) {
                        n.wrap(out, xsd);
                    } else if let (Node::Char(c), true) = (n, i > 0 && matches!(v[i - 1], Node::Backref(_))) {
                        // a digit directly after \N would extend the back-reference number
                        if c.is_ascii_digit() {
                            out.push_str("(?:");
                            out.push(*c);
                            out.push(')');
                        } else {
                            n.r(out, xsd)
                        }
                    } else {
                        n.r(out, xsd)
                    }
                }
            }
            Node::Alt(v) => {
                for (i, n) in v.iter().enumerate() {
                    if i > 0 {
                        out.push('|')
                    }
                    if matches!(n, Node::Alt(_)) {
                        n.wrap(out, xsd)
                    } else {
                        n.r(out, xsd)
                    }
                }
            }
            Node::Repeat { body, min, max, greedy, spell } => {
                if body.is_atomic() {
                    body.r(out, xsd)
                } else {
                    body.wrap(out, xsd)
                }
                out.push_str(&quant_str(*min, *max, *greedy, *spell));
            }
            Node::Backref(n) => {
                let _ = write!(out, "\\{}", n);
            }
        }
    }
    pub fn children(&self) -> Vec<&Node> {
        match self {
            Node::Group(b) | Node::NcGroup(b) => vec![b],
            Node::Cat(v) | Node::Alt(v) => v.iter().collect(),
            Node::Repeat { body, .. } => vec![body],
            _ => vec![],
        }
    }
    pub fn any(&self, f: &dyn Fn(&Node) -> bool) -> bool {
        f(self) || self.children().iter().any(|c| c.any(f))
    }
    pub fn count_groups(&self) -> usize {
        let me = if matches!(self, Node::Group(_)) { 1 } else { 0 };
        me + self.children().iter().map(|c| c.count_groups()).sum::<usize>()
    }
    pub fn has_backref(&self) -> bool {
        self.any(&|n| matches!(n, Node::Backref(_)))
    }
    pub fn has_anchor(&self) -> bool {
        self.any(&|n| matches!(n, Node::Bol | Node::Eol))
    }
    /// an alternation one of whose branches contains an anchor, somewhere after a repetition
    pub fn has_anchor_in_alternative(&self) -> bool {
        self.any(&|n| matches!(n, Node::Alt(v) if v.iter().any(|b| b.has_anchor())))
    }
    pub fn has_dot(&self) -> bool {
        self.any(&|n| matches!(n, Node::Dot))
    }
    pub fn has_reluctant(&self) -> bool {
        self.any(&|n| matches!(n, Node::Repeat { greedy: false, .. }))
    }
    /// contains a negated class or a class subtraction (where flag i is not monotonic: [^Q] under i
    /// excludes q as well, F&O 3.1 §5.6.1.1)
    pub fn has_negated_or_subtracted_class(&self) -> bool {
        fn cls(c: &ClassExpr) -> bool {
            c.neg || c.sub.is_some()
        }
        self.any(&|n| matches!(n, Node::Class(c) if cls(c)))
    }
    /// contains a category escape that tells upper from lower case (\p{Lu}, \p{Ll}, \p{Lt} or negations)
    pub fn has_case_sensitive_escape(&self) -> bool {
        fn name(n: &str) -> bool {
            matches!(n, "Lu" | "Ll" | "Lt")
        }
        fn cls(c: &ClassExpr) -> bool {
            c.items.iter().any(|it| matches!(it, ClassItem::Prop(_, n) if name(n))) || c.sub.as_ref().map_or(false, |s| cls(s))
        }
        self.any(&|n| match n {
            Node::Prop(_, n) => name(n),
            Node::Class(c) => cls(c),
            _ => false,
        })
    }
    /// every character range of every class covers only characters that are case-less or belong
    /// to a clean one-to-one case pair (the domain of the case-insensitivity property)
    pub fn ranges_case_regular(&self) -> bool {
        fn ok(a: char, b: char) -> bool {
            if (b as u32) - (a as u32) > 2048 {
                return false;
            }
            (a..=b).all(|x| crate::uoracle::case_partner(x).is_some() || (crate::uoracle::lower1(x) == x && crate::uoracle::upper1(x) == x))
        }
        fn cls(c: &ClassExpr) -> bool {
            c.items.iter().all(|it| match it {
                ClassItem::Range(a, b) => ok(*a, *b),
                _ => true,
            }) && c.sub.as_ref().map_or(true, |s| cls(s))
        }
        !self.any(&|n| matches!(n, Node::Class(c) if !cls(c)))
    }
    /// length of every match if it is the same for all matches (mirrors what a fixed-length
    /// analysis can know; back-references are variable)
    pub fn fixed_len(&self) -> Option<usize> {
        match self {
            Node::Empty | Node::Bol | Node::Eol => Some(0),
            Node::Char(_) | Node::Dot | Node::Esc(_) | Node::Prop(..) | Node::Class(_) => Some(1),
            Node::Backref(_) => None,
            Node::Group(b) | Node::NcGroup(b) => b.fixed_len(),
            Node::Cat(v) => v.iter().try_fold(0usize, |a, n| n.fixed_len().map(|l| a + l)),
            Node::Alt(v) => {
                let first = v.first()?.fixed_len()?;
                if v.iter().all(|n| n.fixed_len() == Some(first)) {
                    Some(first)
                } else {
                    None
                }
            }
            Node::Repeat { body, min, max, .. } => {
                if Some(*min) == *max {
                    body.fixed_len().map(|l| l * min)
                } else if body.fixed_len() == Some(0) {
                    Some(0)
                } else {
                    None
                }
            }
        }
    }
    /// a greedy quantifier that allows zero iterations over a variable-length body: the engine
    /// memoises its zero-iteration alternative per position (History)
    pub fn has_min0_variable_greedy_repeat(&self) -> bool {
        self.any(&|n| matches!(n, Node::Repeat { body, min: 0, greedy: true, max, .. } if *max != Some(0) && body.fixed_len().is_none()))
    }
    /// the capturing groups in the order of their opening parentheses
    pub fn groups_in_order(&self) -> Vec<&Node> {
        fn go<'a>(n: &'a Node, out: &mut Vec<&'a Node>) {
            if matches!(n, Node::Group(_)) {
                out.push(n);
            }
            for c in n.children() {
                go(c, out);
            }
        }
        let mut v = vec![];
        go(self, &mut v);
        v
    }
    /// can some match of this sub-pattern consume a character? (`root` resolves back-references:
    /// a back-reference consumes iff its group can)
    pub fn can_consume(&self, root: &Node) -> bool {
        fn go(n: &Node, groups: &[&Node], depth: usize) -> bool {
            match n {
                Node::Char(_) | Node::Dot | Node::Esc(_) | Node::Prop(..) | Node::Class(_) => true,
                Node::Backref(k) => depth < 8 && groups.get(*k - 1).map_or(false, |g| go(g, groups, depth + 1)),
                Node::Repeat { max: Some(0), .. } => false,
                other => other.children().iter().any(|c| go(c, groups, depth)),
            }
        }
        go(self, &root.groups_in_order(), 0)
    }
    /// (mixed, pure): a quantifier allowing more than one iteration over a body that may match
    /// without consuming; mixed = the body can also consume input, pure = it never can
    pub fn zero_width_loops(&self) -> (bool, bool) {
        fn go(n: &Node, root: &Node, acc: &mut (bool, bool)) {
            if let Node::Repeat { body, max, .. } = n {
                if max.map_or(true, |m| m > 1) && body.nullable() {
                    if body.can_consume(root) {
                        acc.0 = true;
                    } else {
                        acc.1 = true;
                    }
                }
            }
            for c in n.children() {
                go(c, root, acc);
            }
        }
        let mut acc = (false, false);
        go(self, self, &mut acc);
        acc
    }
    pub fn has_ncgroup(&self) -> bool {
        self.any(&|n| matches!(n, Node::NcGroup(_)))
    }
    pub fn size(&self) -> usize {
        1 + self.children().iter().map(|c| c.size()).sum::<usize>()
    }
    pub fn depth(&self) -> usize {
        1 + self.children().iter().map(|c| c.depth()).max().unwrap_or(0)
    }
    /// maximal nesting depth of quantifiers
    pub fn quant_depth(&self) -> usize {
        let me = if matches!(self, Node::Repeat { .. }) { 1 } else { 0 };
        me + self.children().iter().map(|c| c.quant_depth()).max().unwrap_or(0)
    }
    /// Can this node (statically) match the empty string at some position of some input?
    /// Conservative: back-references and anchors count as nullable.
    pub fn nullable(&self) -> bool {
        match self {
            Node::Empty | Node::Bol | Node::Eol | Node::Backref(_) => true,
            Node::Char(_) | Node::Dot | Node::Esc(_) | Node::Prop(..) | Node::Class(_) => false,
            Node::Group(b) | Node::NcGroup(b) => b.nullable(),
            Node::Cat(v) => v.iter().all(|n| n.nullable()),
            Node::Alt(v) => v.iter().any(|n| n.nullable()),
            Node::Repeat { body, min, .. } => *min == 0 || body.nullable(),
        }
    }
    /// Some quantifier (other than one with max == 1... no: any quantifier) is applied to a nullable body.
    pub fn has_quantified_nullable(&self) -> bool {
        self.any(&|n| matches!(n, Node::Repeat { body, .. } if body.nullable()))
    }
    /// A quantifier that can iterate more than once is applied to a nullable body.
    pub fn has_looping_nullable(&self) -> bool {
        self.any(&|n| matches!(n, Node::Repeat { body, max, .. } if body.nullable() && max.map_or(true, |m| m > 1)))
    }
    /// A capturing group sits inside a quantifier that may iterate more than once.
    pub fn has_group_in_loop(&self) -> bool {
        self.any(&|n| matches!(n, Node::Repeat { body, max, .. } if max.map_or(true, |m| m > 1) && body.count_groups() > 0))
    }
    /// A capturing group sits inside any quantifier or alternation (so capture state is saved/restored).
    pub fn has_group_in_quant(&self) -> bool {
        self.any(&|n| matches!(n, Node::Repeat { body, .. } if body.count_groups() > 0))
    }
    /// every Backref(k) refers to a group closed before it (in render order)
    pub fn valid_backrefs(&self) -> bool {
        fn walk(n: &Node, next: &mut usize, closed: &mut Vec<usize>) -> bool {
            match n {
                Node::Backref(k) => closed.contains(k),
                Node::Group(b) => {
                    let my = *next;
                    *next += 1;
                    if !walk(b, next, closed) {
                        return false;
                    }
                    closed.push(my);
                    true
                }
                Node::NcGroup(b) => walk(b, next, closed),
                Node::Cat(v) | Node::Alt(v) => v.iter().all(|x| walk(x, next, closed)),
                Node::Repeat { body, .. } => walk(body, next, closed),
                _ => true,
            }
        }
        let mut next = 1;
        let mut closed = vec![];
        walk(self, &mut next, &mut closed)
    }
    /// set of literal characters mentioned anywhere (pattern alphabet)
    pub fn alphabet(&self, out: &mut Vec<char>) {
        fn cls(c: &ClassExpr, out: &mut Vec<char>) {
            for it in &c.items {
                match it {
                    ClassItem::Ch(x) => out.push(*x),
                    ClassItem::Range(a, b) => {
                        out.push(*a);
                        out.push(*b)
                    }
                    _ => {}
                }
            }
            if let Some(s) = &c.sub {
                cls(s, out)
            }
        }
        match self {
            Node::Char(c) => out.push(*c),
            Node::Class(c) => cls(c, out),
            _ => {}
        }
        for c in self.children() {
            c.alphabet(out)
        }
    }
    /// operator-name census of the AST (for evidence)
    pub fn census(&self, out: &mut std::collections::BTreeMap<&'static str, u64>) {
        let name = match self {
            Node::Empty => "empty",
            Node::Char(_) => "char",
            Node::Dot => "dot",
            Node::Esc(_) => "esc",
            Node::Prop(..) => "prop",
            Node::Class(_) => "class",
            Node::Bol => "bol",
            Node::Eol => "eol",
            Node::Group(_) => "group",
            Node::NcGroup(_) => "ncgroup",
            Node::Cat(_) => "cat",
            Node::Alt(_) => "alt",
            Node::Repeat { greedy: true, .. } => "repeat_greedy",
            Node::Repeat { greedy: false, .. } => "repeat_reluctant",
            Node::Backref(_) => "backref",
        };
        *out.entry(name).or_insert(0) += 1;
        for c in self.children() {
            c.census(out)
        }
    }
    /// replace the node at pre-order index `idx` by f(node); returns the new tree
    pub fn map_at(&self, idx: &mut isize, f: &dyn Fn(&Node) -> Node) -> Node {
        if *idx == 0 {
            *idx = -1;
            return f(self);
        }
        if *idx > 0 {
            *idx -= 1;
        }
        match self {
            Node::Group(b) => Node::Group(Box::new(b.map_at(idx, f))),
            Node::NcGroup(b) => Node::NcGroup(Box::new(b.map_at(idx, f))),
            Node::Cat(v) => Node::Cat(v.iter().map(|x| x.map_at(idx, f)).collect()),
            Node::Alt(v) => Node::Alt(v.iter().map(|x| x.map_at(idx, f)).collect()),
            Node::Repeat { body, min, max, greedy, spell } => Node::Repeat { body: Box::new(body.map_at(idx, f)), min: *min, max: *max, greedy: *greedy, spell: *spell },
            other => other.clone(),
        }
    }
    /// node at pre-order index
    pub fn at(&self, idx: usize) -> Option<&Node> {
        fn go<'a>(n: &'a Node, idx: &mut usize) -> Option<&'a Node> {
            if *idx == 0 {
                return Some(n);
            }
            *idx -= 1;
            for c in n.children() {
                if let Some(x) = go(c, idx) {
                    return Some(x);
                }
            }
            None
        }
        let mut i = idx;
        go(self, &mut i)
    }
    /// flatten trivial structure: Cat/Alt of one element, nested Cat in Cat
    pub fn normalize(&self) -> Node {
        match self {
            Node::Group(b) => Node::Group(Box::new(b.normalize())),
            Node::NcGroup(b) => Node::NcGroup(Box::new(b.normalize())),
            Node::Cat(v) => {
                let mut out = vec![];
                for x in v {
                    match x.normalize() {
                        Node::Cat(w) => out.extend(w),
                        Node::Empty => {}
                        o => out.push(o),
                    }
                }
                match out.len() {
                    0 => Node::Empty,
                    1 => out.pop().unwrap(),
                    _ => Node::Cat(out),
                }
            }
            Node::Alt(v) => {
                if v.len() == 1 {
                    v[0].normalize()
                } else {
                    Node::Alt(v.iter().map(|x| x.normalize()).collect())
                }
            }
            Node::Repeat { body, min, max, greedy, .. } => Node::Repeat { body: Box::new(body.normalize()), min: *min, max: *max, greedy: *greedy, spell: 0 },
            other => other.clone(),
        }
    }
}
