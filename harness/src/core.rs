// Shared monitor plumbing: cases, outcomes, observation collector, shard report.
use crate::ast::Node;
use crate::engine::Dialect;
use crate::gen::hash_str;
use crate::json::J;
use std::collections::{BTreeMap, HashSet};

#[derive(Clone, Debug)]
pub struct Case {
    pub pattern: String,
    pub flags: String,
    pub dialect: Dialect,
    pub input: String,
    pub repl: Option<String>,
    /// the AST the pattern was rendered from (None for raw strings)
    pub ast: Option<Node>,
    /// free-form extra parameter of the monitor (e.g. the rewritten spelling, whitespace positions)
    pub aux: Option<String>,
    /// second AST (metamorphic twin), if any
    pub ast2: Option<Node>,
}

impl Case {
    pub fn new(ast: &Node, flags: &str, input: &str) -> Case {
        Case { pattern: ast.render(), flags: flags.to_string(), dialect: Dialect::XPath, input: input.to_string(), repl: None, ast: Some(ast.clone()), aux: None, ast2: None }
    }
    pub fn raw(pattern: &str, flags: &str, input: &str) -> Case {
        Case { pattern: pattern.to_string(), flags: flags.to_string(), dialect: Dialect::XPath, input: input.to_string(), repl: None, ast: None, aux: None, ast2: None }
    }
    pub fn with_ast(&self, ast: &Node) -> Case {
        let mut c = self.clone();
        c.pattern = ast.render();
        c.ast = Some(ast.clone());
        c
    }
    pub fn key(&self) -> u64 {
        let mut h = hash_str(&self.pattern);
        h = h.rotate_left(13) ^ hash_str(&self.flags);
        h = h.rotate_left(13) ^ hash_str(&self.input);
        if let Some(r) = &self.repl {
            h = h.rotate_left(13) ^ hash_str(r);
        }
        if let Some(r) = &self.aux {
            h = h.rotate_left(13) ^ hash_str(r);
        }
        if self.dialect == Dialect::Xsd {
            h ^= 0x1234_5678_9abc_def0;
        }
        h
    }
    pub fn to_json(&self) -> J {
        let mut j = J::obj();
        j.set("pattern", J::s(&self.pattern));
        j.set("flags", J::s(&self.flags));
        j.set("dialect", J::s(if self.dialect == Dialect::XPath { "xpath" } else { "xsd" }));
        j.set("input", J::s(&self.input));
        if let Some(r) = &self.repl {
            j.set("replacement", J::s(r));
        }
        if let Some(r) = &self.aux {
            j.set("aux", J::s(r));
        }
        if let Some(a) = &self.ast2 {
            j.set("pattern2", J::s(&a.render()));
        }
        j
    }
    pub fn from_json(j: &J) -> Case {
        Case {
            pattern: j.str("pattern").unwrap_or("").to_string(),
            flags: j.str("flags").unwrap_or("").to_string(),
            dialect: if j.str("dialect") == Some("xsd") { Dialect::Xsd } else { Dialect::XPath },
            input: j.str("input").unwrap_or("").to_string(),
            repl: j.str("replacement").map(|s| s.to_string()),
            ast: None,
            aux: j.str("aux").map(|s| s.to_string()),
            ast2: j.str("pattern2").and_then(|p| match crate::grammar::parse(p, false, false) {
                crate::grammar::Parsed::Valid(n) => Some(n),
                _ => None,
            }),
        }
    }
}

#[derive(Clone, Debug)]
pub struct Finding {
    /// short, stable name of what was violated (monitor-specific), e.g. "is_match_false_negative"
    pub kind: String,
    pub observed: String,
    pub expected: String,
}

impl Finding {
    pub fn new(kind: &str, observed: impl Into<String>, expected: impl Into<String>) -> Finding {
        Finding { kind: kind.to_string(), observed: observed.into(), expected: expected.into() }
    }
}

pub enum Outcome {
    Held,
    Violated(Vec<Finding>),
    Inconclusive(&'static str),
}

/// collector of what a run observed
#[derive(Default)]
pub struct Obs {
    pub counters: BTreeMap<String, u64>,
    pub samples: Vec<J>,
    pub sample_cap: usize,
    pub quiet: bool,
    seen: HashSet<u64>,
    pub hashes: Vec<u64>,
    pub maxima: BTreeMap<String, u64>,
}

impl Obs {
    pub fn new() -> Obs {
        Obs { sample_cap: 12, ..Default::default() }
    }
    pub fn scratch() -> Obs {
        Obs { quiet: true, ..Default::default() }
    }
    pub fn count(&mut self, k: &str) {
        self.add(k, 1)
    }
    pub fn add(&mut self, k: &str, n: u64) {
        if self.quiet {
            return;
        }
        *self.counters.entry(k.to_string()).or_insert(0) += n;
    }
    pub fn max(&mut self, k: &str, v: u64) {
        if self.quiet {
            return;
        }
        let e = self.maxima.entry(k.to_string()).or_insert(0);
        if v > *e {
            *e = v
        }
    }
    /// register a case as non-trivial; counted once per distinct key
    pub fn nontrivial(&mut self, key: u64) {
        if self.quiet {
            return;
        }
        if self.seen.insert(key) && self.hashes.len() < 4_000_000 {
            self.hashes.push(key);
        }
    }
    pub fn distinct(&self) -> usize {
        self.seen.len()
    }
    pub fn sample(&mut self, j: J) {
        if self.quiet {
            return;
        }
        if self.samples.len() < self.sample_cap {
            self.samples.push(j);
        }
    }
    pub fn want_sample(&self) -> bool {
        !self.quiet && self.samples.len() < self.sample_cap
    }
}

pub struct Violation {
    pub finding: Finding,
    pub original: Case,
    pub minimized: Case,
    pub shrink_complete: bool,
    pub facts: J,
}

impl Violation {
    pub fn to_json(&self, prop: &str) -> J {
        J::obj()
            .with("property", J::s(prop))
            .with("kind", J::s(&self.finding.kind))
            .with("observed", J::s(&self.finding.observed))
            .with("expected", J::s(&self.finding.expected))
            .with("case", self.minimized.to_json())
            .with("original_case", self.original.to_json())
            .with("shrink_complete", J::Bool(self.shrink_complete))
            .with("facts", self.facts.clone())
    }
}

/// structural facts about a (minimised) witness, used for known-finding attribution
pub fn facts_of(case: &Case, finding: &Finding) -> J {
    let mut f = J::obj();
    let ast = case.ast.clone().or_else(|| match crate::grammar::parse(&case.pattern, case.dialect == Dialect::Xsd, case.flags.contains('x')) {
        crate::grammar::Parsed::Valid(n) if !case.flags.contains('q') => Some(n),
        _ => None,
    });
    if let Some(a) = &ast {
        f.set("has_ast", J::Bool(true));
        f.set("quantified_nullable", J::Bool(a.has_quantified_nullable()));
        f.set("looping_nullable", J::Bool(a.has_looping_nullable()));
        f.set("group_in_loop", J::Bool(a.has_group_in_loop()));
        f.set("min0_variable_greedy_repeat", J::Bool(a.has_min0_variable_greedy_repeat()));
        let (zw_mixed, zw_pure) = a.zero_width_loops();
        f.set("zero_width_loop_mixed", J::Bool(zw_mixed));
        f.set("zero_width_loop_pure", J::Bool(zw_pure));
        f.set("group_in_quant", J::Bool(a.has_group_in_quant()));
        f.set("groups", J::u(a.count_groups() as u64));
        f.set("backref", J::Bool(a.has_backref()));
        f.set("anchor", J::Bool(a.has_anchor()));
        f.set("reluctant", J::Bool(a.has_reluctant()));
        f.set("size", J::u(a.size() as u64));
        f.set("depth", J::u(a.depth() as u64));
    } else {
        f.set("has_ast", J::Bool(false));
    }
    if let Some(a2) = &case.ast2 {
        f.set("quantified_nullable2", J::Bool(a2.has_quantified_nullable()));
        f.set("looping_nullable2", J::Bool(a2.has_looping_nullable()));
        f.set("group_in_loop2", J::Bool(a2.has_group_in_loop()));
        f.set("min0_variable_greedy_repeat2", J::Bool(a2.has_min0_variable_greedy_repeat()));
    }
    f.set("pattern_len", J::u(case.pattern.chars().count() as u64));
    f.set("dotted_capital_i", J::Bool(case.pattern.contains('\u{130}') || case.input.contains('\u{130}')));
    f.set("flags", J::s(&case.flags));
    // panic site without line number: file + message
    if finding.kind.starts_with("panic") || finding.observed.starts_with("panic at ") {
        let obs = &finding.observed;
        if let Some(rest) = obs.strip_prefix("panic at ") {
            let (site, msg) = match rest.find(": ") {
                Some(i) => (&rest[..i], &rest[i + 2..]),
                None => (rest, ""),
            };
            let file = site.split(':').next().unwrap_or("");
            f.set("panic_file", J::s(file));
            // strip numbers from the message so that an index value does not change the signature
            let m: String = msg.chars().map(|c| if c.is_ascii_digit() { '#' } else { c }).collect();
            let mut m2 = String::new();
            for c in m.chars() {
                if !(c == '#' && m2.ends_with('#')) {
                    m2.push(c)
                }
            }
            f.set("panic_msg", J::s(&m2));
        }
    }
    f
}

pub struct Report {
    pub prop: String,
    pub tier: String,
    pub seed: u64,
    pub shard: usize,
    pub evaluations: u64,
    pub held: u64,
    pub inconclusive: BTreeMap<String, u64>,
    pub violations: Vec<Violation>,
    pub violations_total: u64,
    pub obs: Obs,
    pub notes: Vec<String>,
    pub exhaustive: Option<J>,
}

impl Report {
    pub fn to_json(&self) -> J {
        let mut j = J::obj();
        j.set("property", J::s(&self.prop));
        j.set("tier", J::s(&self.tier));
        j.set("seed", J::u(self.seed));
        j.set("shard", J::u(self.shard as u64));
        j.set("evaluations", J::u(self.evaluations));
        j.set("held", J::u(self.held));
        j.set("distinct_nontrivial_local", J::u(self.obs.distinct() as u64));
        let mut inc = J::obj();
        for (k, v) in &self.inconclusive {
            inc.set(k, J::u(*v));
        }
        j.set("inconclusive", inc);
        let mut c = J::obj();
        for (k, v) in &self.obs.counters {
            c.set(k, J::u(*v));
        }
        j.set("counters", c);
        let mut m = J::obj();
        for (k, v) in &self.obs.maxima {
            m.set(k, J::u(*v));
        }
        j.set("maxima", m);
        j.set("samples", J::Arr(self.obs.samples.clone()));
        j.set("violations_total", J::u(self.violations_total));
        j.set("violations", J::Arr(self.violations.iter().map(|v| v.to_json(&self.prop)).collect()));
        j.set("notes", J::arr_str(&self.notes));
        if let Some(e) = &self.exhaustive {
            j.set("exhaustive", e.clone());
        }
        j.set("max_engine_steps_per_call", J::u(crate::engine::MAX_STEPS_SEEN.with(|m| m.get())));
        j.set("engine_calls", J::u(crate::engine::TOTAL_CALLS.with(|m| m.get())));
        j
    }
}
