// Thin, uniform boundary around the regexml API: every call runs under catch_unwind with the
// step counter (H2) armed; results are normalised into comparable values.
use regexml::{AnalyzeEntry, Error, MatchEntry, Regex};
use std::cell::RefCell;
use std::panic::{catch_unwind, AssertUnwindSafe};

#[derive(Clone, Copy, Debug, PartialEq, Eq, Hash)]
pub enum Dialect {
    XPath,
    Xsd,
}

#[derive(Clone, Debug, PartialEq, Eq, Hash)]
pub enum ErrKind {
    Internal,
    InvalidFlags,
    Syntax,
    MatchesEmptyString,
    InvalidReplacementString,
}

impl ErrKind {
    pub fn of(e: &Error) -> ErrKind {
        match e {
            Error::Internal => ErrKind::Internal,
            Error::InvalidFlags(_) => ErrKind::InvalidFlags,
            Error::Syntax(_) => ErrKind::Syntax,
            Error::MatchesEmptyString => ErrKind::MatchesEmptyString,
            Error::InvalidReplacementString(_) => ErrKind::InvalidReplacementString,
        }
    }
    pub fn name(&self) -> &'static str {
        match self {
            ErrKind::Internal => "Internal",
            ErrKind::InvalidFlags => "InvalidFlags",
            ErrKind::Syntax => "Syntax",
            ErrKind::MatchesEmptyString => "MatchesEmptyString",
            ErrKind::InvalidReplacementString => "InvalidReplacementString",
        }
    }
}

/// abnormal completion of a call
#[derive(Clone, Debug, PartialEq, Eq, Hash)]
pub enum Fail {
    /// panic: (file:line inside the crate, message)
    Panic { site: String, msg: String },
    /// step limit (H2) exceeded
    Fuel,
    /// iterator yielded more items than the property's bound allows
    TooManyItems(usize),
    /// iterator returned Some after None
    NotFused,
}

impl Fail {
    pub fn describe(&self) -> String {
        match self {
            Fail::Panic { site, msg } => format!("panic at {}: {}", site, msg),
            Fail::Fuel => "step limit exceeded".to_string(),
            Fail::TooManyItems(n) => format!("iterator yielded {} items (more than the bound)", n),
            Fail::NotFused => "iterator returned Some after None".to_string(),
        }
    }
}

thread_local! {
    static LAST_PANIC: RefCell<Option<(String, String)>> = const { RefCell::new(None) };
    pub static FUEL_LIMIT: std::cell::Cell<u64> = const { std::cell::Cell::new(2_000_000) };
    pub static MAX_STEPS_SEEN: std::cell::Cell<u64> = const { std::cell::Cell::new(0) };
    pub static TOTAL_CALLS: std::cell::Cell<u64> = const { std::cell::Cell::new(0) };
    pub static LAST_STEPS: std::cell::Cell<u64> = const { std::cell::Cell::new(0) };
    pub static LAST_ZERO_WIDTH: std::cell::Cell<u64> = const { std::cell::Cell::new(0) };
    pub static ZERO_WIDTH_LIMIT: std::cell::Cell<u64> = const { std::cell::Cell::new(0) };
}

pub fn install_panic_hook() {
    std::panic::set_hook(Box::new(|info| {
        let loc = info.location().map(|l| format!("{}:{}", l.file(), l.line())).unwrap_or_default();
        let msg = if let Some(s) = info.payload().downcast_ref::<&str>() {
            s.to_string()
        } else if let Some(s) = info.payload().downcast_ref::<String>() {
            s.clone()
        } else if info.payload().downcast_ref::<regexml::verif::FuelExhausted>().is_some() {
            "FuelExhausted".to_string()
        } else {
            "<non-string payload>".to_string()
        };
        LAST_PANIC.with(|p| *p.borrow_mut() = Some((loc, msg)));
    }));
}

pub fn set_fuel_limit(n: u64) {
    FUEL_LIMIT.with(|f| f.set(n));
}

/// shorten "…/regexml/src/foo.rs:12" to "foo.rs:12"; keep dependency paths recognisable
pub fn short_site(loc: &str) -> String {
    if let Some(i) = loc.find("regexml/src/") {
        loc[i + "regexml/src/".len()..].to_string()
    } else if let Some(i) = loc.find("/registry/src/") {
        let rest = &loc[i + "/registry/src/".len()..];
        match rest.find('/') {
            Some(j) => format!("dep:{}", &rest[j + 1..]),
            None => format!("dep:{}", rest),
        }
    } else {
        loc.to_string()
    }
}

/// run one API call under the monitors
pub fn guarded<T>(f: impl FnOnce() -> T) -> Result<T, Fail> {
    let limit = FUEL_LIMIT.with(|l| l.get());
    regexml::verif::set_fuel(limit);
    regexml::verif::take_zero_width_max();
    regexml::verif::set_zero_width_limit(ZERO_WIDTH_LIMIT.with(|l| l.get()));
    let r = catch_unwind(AssertUnwindSafe(f));
    regexml::verif::set_zero_width_limit(0);
    let steps = regexml::verif::steps();
    regexml::verif::set_fuel(0);
    LAST_STEPS.with(|l| l.set(steps));
    LAST_ZERO_WIDTH.with(|l| l.set(regexml::verif::take_zero_width_max()));
    MAX_STEPS_SEEN.with(|m| {
        if steps > m.get() {
            m.set(steps)
        }
    });
    TOTAL_CALLS.with(|c| c.set(c.get() + 1));
    match r {
        Ok(v) => Ok(v),
        Err(payload) => {
            if payload.downcast_ref::<regexml::verif::FuelExhausted>().is_some() {
                return Err(Fail::Fuel);
            }
            // only armed by C06, which looks at last_zero_width() before anything else
            if payload.downcast_ref::<regexml::verif::ZeroWidthExceeded>().is_some() {
                return Err(Fail::Fuel);
            }
            let (loc, msg) = LAST_PANIC.with(|p| p.borrow_mut().take()).unwrap_or_default();
            Err(Fail::Panic { site: short_site(&loc), msg })
        }
    }
}

/// hook H4: the largest number of zero-width iterations performed by one repeat iterator during
/// the last guarded call
pub fn last_zero_width() -> u64 {
    LAST_ZERO_WIDTH.with(|l| l.get())
}

/// arm (0 = disarm) the per-iterator limit on zero-width iterations for the following guarded calls
pub fn set_zero_width_limit(n: u64) {
    ZERO_WIDTH_LIMIT.with(|l| l.set(n));
}

pub fn last_steps() -> u64 {
    LAST_STEPS.with(|l| l.get())
}

pub type Compiled = Result<Result<Regex, ErrKind>, Fail>;

pub fn compile(p: &str, f: &str, d: Dialect) -> Compiled {
    guarded(|| match d {
        Dialect::XPath => Regex::xpath(p, f),
        Dialect::Xsd => Regex::xsd(p, f),
    })
    .map(|r| r.map_err(|e| ErrKind::of(&e)))
}

pub fn compile_unopt(p: &str, f: &str, d: Dialect) -> Compiled {
    guarded(|| match d {
        Dialect::XPath => Regex::xpath_unoptimized(p, f),
        Dialect::Xsd => Regex::xsd_unoptimized(p, f),
    })
    .map(|r| r.map_err(|e| ErrKind::of(&e)))
}

pub fn is_match(re: &Regex, s: &str) -> Result<bool, Fail> {
    guarded(|| re.is_match(s))
}

pub fn replace_all(re: &Regex, s: &str, r: &str) -> Result<Result<String, ErrKind>, Fail> {
    guarded(|| re.replace_all(s, r)).map(|x| x.map_err(|e| ErrKind::of(&e)))
}

/// drain tokenize; bound = len+1 items; polls 3 more times after None
pub fn tokenize(re: &Regex, s: &str) -> Result<Result<Vec<String>, ErrKind>, Fail> {
    let bound = s.chars().count() + 1;
    let r = guarded(|| {
        let mut it = match re.tokenize(s) {
            Ok(it) => it,
            Err(e) => return Ok(Err(ErrKind::of(&e))),
        };
        let mut v = vec![];
        loop {
            match it.next() {
                Some(t) => {
                    v.push(t);
                    if v.len() > bound + 2 {
                        return Err(Fail::TooManyItems(v.len()));
                    }
                }
                None => break,
            }
        }
        for _ in 0..3 {
            if it.next().is_some() {
                return Err(Fail::NotFused);
            }
        }
        if v.len() > bound {
            return Err(Fail::TooManyItems(v.len()));
        }
        Ok(Ok(v))
    });
    match r {
        Ok(Ok(x)) => Ok(x),
        Ok(Err(f)) => Err(f),
        Err(f) => Err(f),
    }
}

/// normalised analyze output
#[derive(Clone, Debug, PartialEq, Eq, Hash)]
pub enum AEntry {
    NonMatch(String),
    Match(Vec<MEntry>),
}
#[derive(Clone, Debug, PartialEq, Eq, Hash)]
pub enum MEntry {
    Str(String),
    Group(usize, Vec<MEntry>),
}

fn conv_m(m: &MatchEntry) -> MEntry {
    match m {
        MatchEntry::String(s) => MEntry::Str(s.clone()),
        MatchEntry::Group { nr, value } => MEntry::Group(*nr, value.iter().map(conv_m).collect()),
    }
}

pub fn mentry_text(v: &[MEntry], out: &mut String) {
    for e in v {
        match e {
            MEntry::Str(s) => out.push_str(s),
            MEntry::Group(_, w) => mentry_text(w, out),
        }
    }
}

impl AEntry {
    pub fn text(&self) -> String {
        match self {
            AEntry::NonMatch(s) => s.clone(),
            AEntry::Match(v) => {
                let mut s = String::new();
                mentry_text(v, &mut s);
                s
            }
        }
    }
}

pub fn analyze(re: &Regex, s: &str) -> Result<Result<Vec<AEntry>, ErrKind>, Fail> {
    let bound = 2 * s.chars().count() + 1;
    let r = guarded(|| {
        let mut it = match re.analyze(s) {
            Ok(it) => it,
            Err(e) => return Ok(Err(ErrKind::of(&e))),
        };
        let mut v = vec![];
        loop {
            match it.next() {
                Some(t) => {
                    v.push(match &t {
                        AnalyzeEntry::NonMatch(s) => AEntry::NonMatch(s.clone()),
                        AnalyzeEntry::Match(m) => AEntry::Match(m.iter().map(conv_m).collect()),
                    });
                    if v.len() > bound + 2 {
                        return Err(Fail::TooManyItems(v.len()));
                    }
                }
                None => break,
            }
        }
        for _ in 0..3 {
            if it.next().is_some() {
                return Err(Fail::NotFused);
            }
        }
        if v.len() > bound {
            return Err(Fail::TooManyItems(v.len()));
        }
        Ok(Ok(v))
    });
    match r {
        Ok(Ok(x)) => Ok(x),
        Ok(Err(f)) => Err(f),
        Err(f) => Err(f),
    }
}

/// match spans (in code points) reconstructed from replace_all with delimiters that do not occur in s
pub fn spans_via_replace(re: &Regex, s: &str) -> Result<Result<Vec<(usize, usize)>, ErrKind>, Fail> {
    debug_assert!(!s.contains('\u{1}') && !s.contains('\u{2}'));
    let out = match replace_all(re, s, "\u{1}$0\u{2}")? {
        Ok(o) => o,
        Err(e) => return Ok(Err(e)),
    };
    let mut spans = vec![];
    let mut pos = 0usize; // position in the original input
    let mut start = None;
    for c in out.chars() {
        match c {
            '\u{1}' => start = Some(pos),
            '\u{2}' => {
                if let Some(st) = start.take() {
                    spans.push((st, pos))
                }
            }
            _ => pos += 1,
        }
    }
    Ok(Ok(spans))
}

/// per match: texts of groups 1..=ng via replace (ng <= 9 uses $N; above uses multi-digit refs)
pub fn groups_via_replace(re: &Regex, s: &str, ng: usize) -> Result<Result<Vec<Vec<String>>, ErrKind>, Fail> {
    let mut rep = String::from("\u{1}");
    for g in 1..=ng {
        rep.push_str(&format!("${}\u{3}", g));
    }
    rep.push('\u{2}');
    let out = match replace_all(re, s, &rep)? {
        Ok(o) => o,
        Err(e) => return Ok(Err(e)),
    };
    let mut res = vec![];
    let mut cur: Option<Vec<String>> = None;
    let mut buf = String::new();
    for c in out.chars() {
        match c {
            '\u{1}' => {
                cur = Some(vec![]);
                buf.clear();
            }
            '\u{3}' => {
                if let Some(v) = cur.as_mut() {
                    v.push(std::mem::take(&mut buf));
                }
            }
            '\u{2}' => {
                if let Some(v) = cur.take() {
                    res.push(v)
                }
            }
            _ => {
                if cur.is_some() {
                    buf.push(c)
                }
            }
        }
    }
    Ok(Ok(res))
}

/// operator names in the compiled program, parsed from the Debug output (no hook needed)
pub fn operator_census(re: &Regex, out: &mut std::collections::BTreeMap<String, u64>) {
    let d = format!("{:?}", re);
    for name in ["UnambiguousRepeat(", "GreedyFixed(", "ReluctantFixed(", "Repeat(", "Choice(", "Capture(", "BackReference(", "Bol(", "Eol(", "Sequence(", "CharClass(", "Atom(", "Nothing("] {
        let mut n = 0u64;
        let mut from = 0;
        while let Some(i) = d[from..].find(name) {
            let abs = from + i;
            // "Repeat(" also occurs inside "UnambiguousRepeat("
            let ok = !(name == "Repeat(" && abs >= 11 && &d[abs - 11..abs] == "Unambiguous");
            if ok {
                n += 1;
            }
            from = abs + name.len();
        }
        if n > 0 {
            *out.entry(name.trim_end_matches('(').to_string()).or_insert(0) += n;
        }
    }
}
