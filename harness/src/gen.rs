// Seeded workload generators: random structured patterns, bounded-exhaustive small patterns,
// shortcut-biased shapes, hostile strings, inputs.
use crate::ast::*;

#[derive(Clone)]
pub struct Rng(pub u64);
impl Rng {
    pub fn new(seed: u64) -> Rng {
        Rng(seed)
    }
    /// derive an independent stream
    pub fn derive(seed: u64, parts: &[u64]) -> Rng {
        let mut r = Rng(seed ^ 0x5851F42D4C957F2D);
        for p in parts {
            r.0 = r.next() ^ p.wrapping_mul(0x9E3779B97F4A7C15);
        }
        r.next();
        r
    }
    pub fn next(&mut self) -> u64 {
        // splitmix64
        self.0 = self.0.wrapping_add(0x9E3779B97F4A7C15);
        let mut z = self.0;
        z = (z ^ (z >> 30)).wrapping_mul(0xBF58476D1CE4E5B9);
        z = (z ^ (z >> 27)).wrapping_mul(0x94D049BB133111EB);
        z ^ (z >> 31)
    }
    pub fn below(&mut self, n: usize) -> usize {
        if n == 0 {
            return 0;
        }
        (self.next() % (n as u64)) as usize
    }
    pub fn chance(&mut self, num: usize, den: usize) -> bool {
        self.below(den) < num
    }
    pub fn pick<'a, T>(&mut self, v: &'a [T]) -> &'a T {
        &v[self.below(v.len())]
    }
}

pub fn hash_str(s: &str) -> u64 {
    // FNV-1a
    let mut h: u64 = 0xcbf29ce484222325;
    for b in s.bytes() {
        h ^= b as u64;
        h = h.wrapping_mul(0x100000001b3);
    }
    h
}

#[derive(Clone)]
pub struct GenCfg {
    pub alphabet: Vec<char>,
    pub anchors: bool,
    pub backrefs: bool,
    pub classes: bool,
    pub props: bool,
    pub reluctant: bool,
    pub groups: bool,
    pub ncgroups: bool,
    pub quant_anchors: bool,
    pub max_depth: usize,
    pub max_top: usize,
    /// percentage of pieces that get a quantifier
    pub quant_pct: usize,
    /// avoid quantifiers on nullable bodies (keeps patterns in the strict ordered-choice domain)
    pub no_nullable_quant: bool,
}

impl GenCfg {
    pub fn std(alphabet: &[char]) -> GenCfg {
        GenCfg {
            alphabet: alphabet.to_vec(),
            anchors: true,
            backrefs: true,
            classes: true,
            props: true,
            reluctant: true,
            groups: true,
            ncgroups: true,
            quant_anchors: true,
            max_depth: 3,
            max_top: 4,
            quant_pct: 40,
            no_nullable_quant: false,
        }
    }
}

pub const ESCS: &[char] = &['s', 'S', 'd', 'D', 'w', 'W', 'i', 'I', 'c', 'C'];
pub const PROPS: &[&str] = &["L", "Lu", "Ll", "Nd", "N", "P", "Zs", "Z", "Cc", "C", "S", "IsBasicLatin", "IsLatin-1Supplement", "IsGreek"];

pub struct Gen<'a> {
    pub rng: &'a mut Rng,
    pub cfg: &'a GenCfg,
    pub closed_groups: Vec<usize>,
    pub next_group: usize,
}

impl<'a> Gen<'a> {
    pub fn new(rng: &'a mut Rng, cfg: &'a GenCfg) -> Self {
        Gen { rng, cfg, closed_groups: vec![], next_group: 1 }
    }
    fn ch(&mut self) -> char {
        *self.rng.pick(&self.cfg.alphabet)
    }
    pub fn class(&mut self, depth: usize) -> ClassExpr {
        let n = 1 + self.rng.below(3);
        let mut items = vec![];
        for _ in 0..n {
            let k = self.rng.below(10);
            if k < 5 {
                items.push(ClassItem::Ch(self.ch()));
            } else if k < 8 {
                let a = self.ch();
                let b = self.ch();
                let (a, b) = if a <= b { (a, b) } else { (b, a) };
                items.push(ClassItem::Range(a, b));
            } else if k < 9 || !self.cfg.props {
                items.push(ClassItem::Esc(*self.rng.pick(ESCS)));
            } else {
                items.push(ClassItem::Prop(self.rng.chance(1, 2), self.rng.pick(PROPS).to_string()));
            }
        }
        let sub = if depth < 2 && self.rng.chance(1, 5) { Some(Box::new(self.class(depth + 1))) } else { None };
        ClassExpr { neg: self.rng.chance(1, 4), items, sub }
    }
    fn atom(&mut self, depth: usize) -> Node {
        let k = self.rng.below(100);
        if k < 42 {
            Node::Char(self.ch())
        } else if k < 50 {
            Node::Dot
        } else if k < 60 && self.cfg.classes {
            Node::Class(self.class(0))
        } else if k < 63 && self.cfg.classes {
            Node::Esc(*self.rng.pick(ESCS))
        } else if k < 65 && self.cfg.classes && self.cfg.props {
            Node::Prop(self.rng.chance(1, 2), self.rng.pick(PROPS).to_string())
        } else if k < 71 && self.cfg.anchors {
            if self.rng.chance(1, 2) {
                Node::Bol
            } else {
                Node::Eol
            }
        } else if k < 77 && self.cfg.backrefs && !self.closed_groups.is_empty() {
            let g = *self.rng.pick(&self.closed_groups.clone());
            Node::Backref(g)
        } else if depth < self.cfg.max_depth && (self.cfg.groups || self.cfg.ncgroups) {
            if self.cfg.groups && (!self.cfg.ncgroups || self.rng.chance(1, 2)) {
                let my = self.next_group;
                self.next_group += 1;
                let inner = self.expr(depth + 1);
                self.closed_groups.push(my);
                Node::Group(Box::new(inner))
            } else {
                Node::NcGroup(Box::new(self.expr(depth + 1)))
            }
        } else {
            Node::Char(self.ch())
        }
    }
    pub fn quant(&mut self) -> (usize, Option<usize>, u8) {
        match self.rng.below(10) {
            0 | 1 => (0, None, 0),
            2 | 3 => (1, None, 0),
            4 | 5 => (0, Some(1), 0),
            6 => {
                let n = self.rng.below(4);
                (n, Some(n), 1 + self.rng.below(2) as u8)
            }
            7 | 8 => {
                let n = self.rng.below(3);
                (n, Some(n + self.rng.below(3)), 2)
            }
            _ => (self.rng.below(3), None, 1),
        }
    }
    fn piece(&mut self, depth: usize) -> Node {
        let a = self.atom(depth);
        if self.rng.below(100) < self.cfg.quant_pct {
            if matches!(a, Node::Bol | Node::Eol) && !self.cfg.quant_anchors {
                return a;
            }
            if self.cfg.no_nullable_quant && a.nullable() {
                return a;
            }
            let (min, max, spell) = self.quant();
            let greedy = !(self.cfg.reluctant && self.rng.chance(1, 3));
            Node::Repeat { body: Box::new(a), min, max, greedy, spell }
        } else {
            a
        }
    }
    fn branch(&mut self, depth: usize) -> Node {
        let n = if depth == 0 { 1 + self.rng.below(self.cfg.max_top) } else { self.rng.below(4) };
        if n == 0 {
            return Node::Empty;
        }
        let v: Vec<Node> = (0..n).map(|_| self.piece(depth)).collect();
        if v.len() == 1 {
            v.into_iter().next().unwrap()
        } else {
            Node::Cat(v)
        }
    }
    pub fn expr(&mut self, depth: usize) -> Node {
        let n = if self.rng.chance(1, 4) { 2 + self.rng.below(2) } else { 1 };
        if n == 1 {
            self.branch(depth)
        } else {
            // groups opened in one alternative are closed for the following ones; fine for validity
            Node::Alt((0..n).map(|_| self.branch(depth)).collect())
        }
    }
}

pub fn gen_pattern(rng: &mut Rng, cfg: &GenCfg) -> Node {
    let mut g = Gen::new(rng, cfg);
    g.expr(0)
}

/// case counterparts within the standard alphabets
pub fn swap_case(c: char) -> char {
    crate::uoracle::case_partner(c).unwrap_or(c)
}

/// a string that one path through the pattern matches (random choices at alternations and
/// quantifiers); characters for classes / escapes are drawn from `cands`
pub fn sample_match(rng: &mut Rng, n: &Node, cands: &[char], groups: &mut Vec<String>, out: &mut String) {
    let pick_char = |rng: &mut Rng, f: &dyn Fn(char) -> bool| -> Option<char> {
        let start = rng.below(cands.len().max(1));
        (0..cands.len()).map(|k| cands[(start + k) % cands.len()]).find(|c| f(*c))
    };
    match n {
        Node::Empty | Node::Bol | Node::Eol => {}
        Node::Char(c) => out.push(*c),
        Node::Dot => out.push(pick_char(rng, &|c| c != '\n' && c != '\r').unwrap_or('a')),
        Node::Esc(e) => {
            if let Some(c) = pick_char(rng, &|c| crate::uoracle::esc_match(*e, c)) {
                out.push(c)
            }
        }
        Node::Prop(p, name) => {
            if let Some(c) = pick_char(rng, &|c| crate::uoracle::prop_match(*p, name, c).unwrap_or(false)) {
                out.push(c)
            }
        }
        Node::Class(ce) => {
            if let Some(c) = pick_char(rng, &|c| crate::refmodel::class_match(ce, c, false)) {
                out.push(c)
            }
        }
        Node::Group(b) => {
            let idx = groups.len();
            groups.push(String::new());
            let st = out.len();
            sample_match(rng, b, cands, groups, out);
            groups[idx] = out[st..].to_string();
        }
        Node::NcGroup(b) => sample_match(rng, b, cands, groups, out),
        Node::Cat(v) => {
            for x in v {
                sample_match(rng, x, cands, groups, out)
            }
        }
        Node::Alt(v) => {
            let k = rng.below(v.len());
            // groups of the branches not taken still get their numbers
            for (i, x) in v.iter().enumerate() {
                if i == k {
                    sample_match(rng, x, cands, groups, out)
                } else {
                    for _ in 0..x.count_groups() {
                        groups.push(String::new())
                    }
                }
            }
        }
        Node::Repeat { body, min, max, .. } => {
            let hi = max.unwrap_or(min + 3).min(min + 3);
            let k = min + rng.below(hi - min + 1);
            let ng = body.count_groups();
            let base = groups.len();
            for _ in 0..ng {
                groups.push(String::new())
            }
            for _ in 0..k.min(6) {
                let mut g2: Vec<String> = groups[..base].to_vec();
                sample_match(rng, body, cands, &mut g2, out);
                for (i, t) in g2.into_iter().enumerate().skip(base) {
                    if i < groups.len() {
                        groups[i] = t
                    }
                }
            }
        }
        Node::Backref(k) => {
            if let Some(t) = groups.get(k - 1) {
                out.push_str(&t.clone())
            }
        }
    }
}

/// input derived from a sampled match: the match itself, or a near miss of it (a piece dropped or
/// doubled, junk inserted in the middle, the match followed by junk and a second partial match)
pub fn gen_matching_input(rng: &mut Rng, node: &Node, extra: &[char], maxlen: usize) -> String {
    let mut own = vec![];
    node.alphabet(&mut own);
    let mut cands: Vec<char> = own.clone();
    cands.extend_from_slice(extra);
    cands.extend(['a', 'b', '1', ' ', 'A']);
    let mut groups = vec![];
    let mut m = String::new();
    sample_match(rng, node, &cands, &mut groups, &mut m);
    let mc: Vec<char> = m.chars().collect();
    let junk = |rng: &mut Rng| -> String { (0..1 + rng.below(2)).map(|_| *rng.pick(&cands)).collect() };
    let mut s: Vec<char> = match rng.below(8) {
        0 | 1 => mc.clone(),
        2 => {
            // junk before and after
            let mut v: Vec<char> = junk(rng).chars().collect();
            v.extend(&mc);
            v.extend(junk(rng).chars());
            v
        }
        3 if !mc.is_empty() => {
            // drop one character
            let mut v = mc.clone();
            v.remove(rng.below(mc.len()));
            v
        }
        4 if !mc.is_empty() => {
            // split the match, put junk in between, and repeat the tail once more
            let cut = rng.below(mc.len() + 1);
            let mut v: Vec<char> = mc[..cut].to_vec();
            v.extend(junk(rng).chars());
            v.extend(&mc[cut..]);
            v
        }
        5 if !mc.is_empty() => {
            // the match, junk, then its tail again (a later occurrence of the continuation)
            let cut = rng.below(mc.len());
            let mut v = mc.clone();
            v.extend(junk(rng).chars());
            v.extend(&mc[cut..]);
            v
        }
        6 => {
            // two matches back to back
            let mut m2 = String::new();
            let mut g2 = vec![];
            sample_match(rng, node, &cands, &mut g2, &mut m2);
            let mut v = mc.clone();
            v.extend(m2.chars());
            v
        }
        _ => {
            // double one character
            let mut v = mc.clone();
            if !v.is_empty() {
                let i = rng.below(v.len());
                let c = v[i];
                v.insert(i, c);
            }
            v
        }
    };
    s.truncate(maxlen.max(4) + 4);
    s.into_iter().collect()
}

/// random input of length 0..=maxlen: half of the time derived from a sampled match of the pattern
/// (see gen_matching_input), otherwise 70 % from the pattern's own alphabet (and case counterparts)
pub fn gen_input(rng: &mut Rng, node: &Node, extra: &[char], maxlen: usize) -> String {
    if rng.chance(1, 2) {
        return gen_matching_input(rng, node, extra, maxlen);
    }
    let mut own = vec![];
    node.alphabet(&mut own);
    let mut pool: Vec<char> = own.clone();
    for c in &own {
        let p = swap_case(*c);
        if p != *c {
            pool.push(p)
        }
    }
    if pool.is_empty() {
        pool.push('a');
    }
    let len = rng.below(maxlen + 1);
    let mut s = String::new();
    for _ in 0..len {
        if rng.chance(7, 10) || extra.is_empty() {
            s.push(*rng.pick(&pool))
        } else {
            s.push(*rng.pick(extra))
        }
    }
    s
}

pub const STD_EXTRA: &[char] = &['\n', '\r', ' ', '1', 'a', 'b', 'A', '\u{10400}', '\u{10428}', '-'];
pub const STD_ALPHA: &[char] = &['a', 'b', 'A', 'B', '1', ' ', '\n', 'a', 'b', '\u{10400}'];

/// all strings over `alpha` with length <= maxlen
pub fn all_inputs(alpha: &[char], maxlen: usize) -> Vec<String> {
    let mut out = vec![String::new()];
    let mut layer = vec![String::new()];
    for _ in 0..maxlen {
        let mut next = vec![];
        for s in &layer {
            for c in alpha {
                let mut t = s.clone();
                t.push(*c);
                next.push(t);
            }
        }
        out.extend(next.iter().cloned());
        layer = next;
    }
    out
}

// ---------- bounded-exhaustive small patterns ----------
/// every AST with exactly `ops` operator nodes over the given atoms; operators: cat (binary),
/// alt (binary), group, nc-group, quantifiers.
pub fn enumerate_small(ops: usize, atoms: &[Node], quants: &[(usize, Option<usize>, bool)]) -> Vec<Node> {
    let mut memo: Vec<Vec<Node>> = vec![];
    for n in 0..=ops {
        let mut cur = vec![];
        if n == 0 {
            cur.extend(atoms.iter().cloned());
        } else {
            // unary operators on size n-1
            for b in &memo[n - 1] {
                cur.push(Node::Group(Box::new(b.clone())));
                if !matches!(b, Node::Group(_) | Node::NcGroup(_)) {
                    cur.push(Node::NcGroup(Box::new(b.clone())));
                }
                if !matches!(b, Node::Repeat { .. }) || true {
                    for (min, max, greedy) in quants {
                        cur.push(Node::Repeat { body: Box::new(b.clone()), min: *min, max: *max, greedy: *greedy, spell: 0 });
                    }
                }
            }
            // binary operators: sizes l + r = n - 1
            for l in 0..n {
                let r = n - 1 - l;
                for a in &memo[l] {
                    for b in &memo[r] {
                        // canonical forms only: no left-nested Cat/Alt (a(bc) and (ab)c render the same)
                        if !matches!(a, Node::Cat(_)) {
                            let mut v = vec![a.clone()];
                            match b {
                                Node::Cat(w) => v.extend(w.iter().cloned()),
                                o => v.push(o.clone()),
                            }
                            cur.push(Node::Cat(v));
                        }
                        if !matches!(a, Node::Alt(_)) {
                            let mut v = vec![a.clone()];
                            match b {
                                Node::Alt(w) => v.extend(w.iter().cloned()),
                                o => v.push(o.clone()),
                            }
                            cur.push(Node::Alt(v));
                        }
                    }
                }
            }
        }
        memo.push(cur);
    }
    memo.pop().unwrap()
}

// ---------- shortcut-biased shapes ----------
/// patterns shaped to make each compile-time shortcut fire
/// replace back-references that are invalid after independently generated parts were combined
pub fn fix_backrefs(n: &Node) -> Node {
    fn walk(n: &Node, next: &mut usize, closed: &mut Vec<usize>) -> Node {
        match n {
            Node::Backref(k) => {
                if closed.contains(k) {
                    n.clone()
                } else if let Some(g) = closed.last() {
                    Node::Backref(*g)
                } else {
                    Node::Char('a')
                }
            }
            Node::Group(b) => {
                let my = *next;
                *next += 1;
                let r = walk(b, next, closed);
                closed.push(my);
                Node::Group(Box::new(r))
            }
            Node::NcGroup(b) => Node::NcGroup(Box::new(walk(b, next, closed))),
            Node::Cat(v) => Node::Cat(v.iter().map(|x| walk(x, next, closed)).collect()),
            Node::Alt(v) => Node::Alt(v.iter().map(|x| walk(x, next, closed)).collect()),
            Node::Repeat { body, min, max, greedy, spell } => Node::Repeat { body: Box::new(walk(body, next, closed)), min: *min, max: *max, greedy: *greedy, spell: *spell },
            o => o.clone(),
        }
    }
    let mut next = 1;
    let mut closed = vec![];
    walk(n, &mut next, &mut closed)
}

pub fn gen_shortcut(rng: &mut Rng, cfg: &GenCfg) -> Node {
    fix_backrefs(&gen_shortcut_raw(rng, cfg))
}

fn gen_shortcut_raw(rng: &mut Rng, cfg: &GenCfg) -> Node {
    let mut sub = cfg.clone();
    sub.max_top = 2;
    sub.max_depth = 2;
    let tail = |rng: &mut Rng| gen_pattern(rng, &sub);
    let ch = |rng: &mut Rng| Node::Char(*rng.pick(&cfg.alphabet));
    let single = |rng: &mut Rng| -> Node {
        if cfg.props && rng.chance(1, 8) {
            // a bare category escape: its first-character set is not closed under case
            return Node::Prop(rng.chance(3, 4), rng.pick(&["Lu", "Ll", "L", "Nd", "Lt"]).to_string());
        }
        match rng.below(4) {
            0 => Node::Dot,
            1 => {
                let mut g = Gen::new(rng, cfg);
                Node::Class(g.class(1))
            }
            2 => Node::Esc(*rng.pick(ESCS)),
            _ => Node::Char(*rng.pick(&cfg.alphabet)),
        }
    };
    let quant = |rng: &mut Rng, body: Node| -> Node {
        let (min, max) = match rng.below(6) {
            0 => (0, None),
            1 => (1, None),
            2 => (0, Some(1)),
            3 => (2, Some(2)),
            4 => (1, Some(3)),
            _ => (2, None),
        };
        Node::Repeat { body: Box::new(body), min, max, greedy: !rng.chance(1, 4), spell: 0 }
    };
    match rng.below(9) {
        // leading literal -> prefix scan
        0 => Node::Cat(vec![ch(rng), ch(rng), tail(rng)]),
        // leading class -> initial class filter
        1 => Node::Cat(vec![single(rng), tail(rng)]),
        // leading ^ -> BOL fast path
        2 => Node::Cat(vec![Node::Bol, tail(rng)]),
        // X*Y with related / unrelated / anchor followers -> unambiguous-repeat rewrite
        3 | 4 => {
            let x = single(rng);
            let y = match rng.below(12) {
                0 => Node::Bol,
                1 => Node::Eol,
                // a plain alternation of single terms (its first-character set is the union of the
                // branches', under flag i including their case variants)
                9 => {
                    let mut v = vec![single(rng), single(rng)];
                    if rng.chance(1, 3) {
                        v.push(single(rng));
                    }
                    Node::NcGroup(Box::new(Node::Alt(v)))
                }
                // an alternation one of whose branches may or may not start with the repeated term:
                // an optional (greedy or reluctant) lead-in followed by the repeated term itself
                8 | 10 | 11 => {
                    let lead = Node::Repeat { body: Box::new(single(rng)), min: 0, max: if rng.chance(1, 2) { Some(1) } else { None }, greedy: rng.chance(1, 2), spell: 0 };
                    let other = single(rng);
                    let first = Node::Cat(vec![lead, x.clone()]);
                    let alt = if rng.chance(1, 2) { Node::Alt(vec![first, other]) } else { Node::Alt(vec![other, first]) };
                    if rng.chance(1, 3) {
                        Node::Group(Box::new(alt))
                    } else {
                        Node::NcGroup(Box::new(alt))
                    }
                }
                // followers that can match nothing: what comes after them decides
                5 => {
                    let s1 = single(rng);
                    Node::NcGroup(Box::new(Node::Alt(vec![quant(rng, s1), Node::Empty])))
                }
                6 => {
                    let s1 = single(rng);
                    let s2 = single(rng);
                    let a = quant(rng, Node::NcGroup(Box::new(Node::Cat(vec![s1, s2]))));
                    Node::NcGroup(Box::new(Node::Alt(vec![a.clone(), a])))
                }
                7 => Node::Group(Box::new(Node::Repeat { body: Box::new(single(rng)), min: 0, max: Some(1), greedy: true, spell: 0 })),
                2 => {
                    // case-related follower
                    match &x {
                        Node::Char(c) => Node::Char(swap_case(*c)),
                        _ => single(rng),
                    }
                }
                3 => x.clone(),
                _ => single(rng),
            };
            let mut v = vec![];
            if rng.chance(1, 2) {
                v.push(single(rng));
            }
            v.push(quant(rng, x.clone()));
            v.push(y);
            if rng.chance(1, 3) {
                // the repeated term again after the follower
                v.push(x);
            } else if rng.chance(1, 2) {
                v.push(tail(rng));
            }
            Node::Cat(v)
        }
        // fixed-count repeats / long minimum lengths
        5 => {
            let n = 1 + rng.below(4);
            // one character, or a fixed-length cluster of two (give-back then goes in steps of two)
            let b = if rng.chance(1, 2) { single(rng) } else { Node::NcGroup(Box::new(Node::Cat(vec![ch(rng), ch(rng)]))) };
            let rep = Node::Repeat { body: Box::new(b.clone()), min: n, max: Some(n + rng.below(2)), greedy: true, spell: 1 };
            let mut v = if rng.chance(1, 2) {
                // followed by the repeated term itself: giving back below the minimum would still match
                vec![rep, b]
            } else {
                vec![rep, ch(rng), ch(rng)]
            };
            if rng.chance(1, 3) {
                // anchored: the terms after the repetition are pinned to fixed offsets
                v.insert(0, Node::Bol);
            }
            Node::Cat(v)
        }
        // nested sequences feeding preconditions: group / repeat first, literal later
        6 => {
            let s1 = single(rng);
            let g = Node::Group(Box::new(Node::Cat(vec![quant(rng, s1), ch(rng)])));
            Node::Cat(vec![g, tail(rng), ch(rng)])
        }
        // ^ somewhere after other terms (precondition position logic)
        7 => {
            let s1 = single(rng);
            let mut v = vec![quant(rng, s1), Node::Bol, ch(rng)];
            if rng.chance(1, 2) {
                v.insert(0, Node::Group(Box::new(Node::Empty)));
            }
            Node::Cat(v)
        }
        _ => {
            let s1 = single(rng);
            Node::Cat(vec![quant(rng, Node::Group(Box::new(s1))), single(rng), tail(rng)])
        }
    }
}

/// line-oriented shapes for flag m: ^ body terminator, where the terminator may consume the
/// newline, so that the next match starts exactly where the previous one ended
pub fn gen_line_shape(rng: &mut Rng, alpha: &[char]) -> Node {
    let ch = |rng: &mut Rng| Node::Char(*rng.pick(alpha));
    let body = match rng.below(5) {
        0 => ch(rng),
        1 => Node::Repeat { body: Box::new(Node::Dot), min: rng.below(2), max: None, greedy: rng.chance(2, 3), spell: 0 },
        2 => Node::Repeat { body: Box::new(Node::Esc('S')), min: 1, max: None, greedy: true, spell: 0 },
        3 => Node::Cat(vec![ch(rng), Node::Repeat { body: Box::new(ch(rng)), min: 0, max: None, greedy: true, spell: 0 }]),
        _ => Node::Group(Box::new(Node::Repeat { body: Box::new(Node::Esc('w')), min: 1, max: None, greedy: true, spell: 0 })),
    };
    let term = match rng.below(6) {
        0 | 1 => Node::Char('\n'),
        2 => Node::Esc('s'),
        3 => Node::Cat(vec![Node::Eol, Node::Char('\n')]),
        4 => Node::Repeat { body: Box::new(Node::Char('\n')), min: 0, max: Some(1), greedy: true, spell: 0 },
        _ => Node::Eol,
    };
    let mut v = vec![Node::Bol, body, term];
    if rng.chance(1, 4) {
        v.insert(0, Node::Group(Box::new(Node::Empty)));
    }
    Node::Cat(v)
}

/// X{n,}( ^y | $\ny | z )...: a repetition whose follower is an alternation with anchored
/// branches, so that the match has to be found at a position the repetition must give back to
/// (the shapes the first-character analysis of the optimiser reasons about)
pub fn gen_anchor_giveback(rng: &mut Rng) -> Node {
    let alpha = ['a', 'b', '\n'];
    let cls = |v: &[char]| Node::Class(ClassExpr { neg: false, items: v.iter().map(|c| ClassItem::Ch(*c)).collect(), sub: None });
    let x = match rng.below(6) {
        0 => Node::Char('a'),
        1 => Node::Char('\n'),
        2 => cls(&['a', '\n']),
        3 => cls(&['a', 'b']),
        4 => Node::Dot,
        _ => Node::Char('b'),
    };
    let max = if rng.chance(3, 4) { None } else { Some(2 + rng.below(2)) };
    let rep = Node::Repeat { body: Box::new(x), min: rng.below(2), max, greedy: rng.chance(4, 5), spell: 0 };
    let nb = 1 + rng.below(3);
    let mut branches = vec![];
    for _ in 0..nb {
        let mut v = vec![];
        match rng.below(5) {
            0 | 1 => v.push(Node::Bol),
            2 => {
                v.push(Node::Eol);
                if rng.chance(2, 3) {
                    v.push(Node::Char('\n'));
                }
            }
            _ => {}
        }
        if rng.chance(5, 6) {
            v.push(Node::Char(*rng.pick(&alpha)));
        }
        if rng.chance(1, 4) {
            v.push(Node::Char(*rng.pick(&alpha)));
        }
        branches.push(Node::Cat(v).normalize());
    }
    let alt = if branches.len() == 1 { branches.pop().unwrap() } else { Node::Alt(branches) };
    let grp = if rng.chance(1, 3) { Node::Group(Box::new(alt)) } else { Node::NcGroup(Box::new(alt)) };
    let grp = if rng.chance(1, 6) { Node::Repeat { body: Box::new(grp), min: rng.below(2), max: Some(1 + rng.below(2)), greedy: true, spell: 0 } } else { grp };
    let mut v = vec![];
    if rng.chance(1, 2) {
        v.push(Node::Char(*rng.pick(&['a', 'b'])));
    }
    v.push(rep);
    v.push(grp);
    if rng.chance(1, 3) {
        v.push(Node::Char(*rng.pick(&alpha)));
    }
    Node::Cat(v).normalize()
}

/// loops whose body holds a group that an iteration may or may not use, with a follower that
/// forces iterations to be given back or re-done: the capture must be the one of the last
/// iteration that is part of the final match (or none)
pub fn gen_capture_loop_shape(rng: &mut Rng) -> Node {
    let ch = |rng: &mut Rng| Node::Char(*rng.pick(&['a', 'b', 'x']));
    let cls = |rng: &mut Rng| Node::Class(ClassExpr { neg: false, items: vec![ClassItem::Ch(*rng.pick(&['a', 'y'])), ClassItem::Ch('b')], sub: None });
    let opt = |n: Node| Node::Repeat { body: Box::new(n), min: 0, max: Some(1), greedy: true, spell: 0 };
    let grp = |n: Node| Node::Group(Box::new(n));
    let (qmin, qmax) = *rng.pick(&[(1, None), (0, None), (1, Some(3)), (2, None)]);
    let lp = |body: Node| Node::Repeat { body: Box::new(Node::NcGroup(Box::new(body))), min: qmin, max: qmax, greedy: true, spell: 0 };
    match rng.below(5) {
        // (a){2}|ab , x(?:(a){3}|ab)y : an earlier alternative that is a counted group matches some
        // repetitions, fails as a whole, and a later alternative wins - the group took no part
        4 => {
            let c = ch(rng);
            let n = 2 + rng.below(2);
            let counted = Node::Repeat { body: Box::new(grp(if rng.chance(1, 3) { Node::Repeat { body: Box::new(c.clone()), min: 1, max: None, greedy: true, spell: 0 } } else { c.clone() })), min: n, max: Some(n), greedy: true, spell: 0 };
            let alt = Node::Alt(vec![counted, Node::Cat(vec![c, ch(rng)])]);
            if rng.chance(1, 2) {
                alt
            } else {
                Node::Cat(vec![ch(rng), Node::NcGroup(Box::new(alt)), ch(rng)])
            }
        }
        // (?:[yb]x?(b)?)+z : the optional group at the end of the body takes text and gives it back
        0 => Node::Cat(vec![lp(Node::Cat(vec![cls(rng), opt(ch(rng)), opt(grp(ch(rng)))])), ch(rng)]),
        // the same with the whole body captured as well
        1 => Node::Cat(vec![Node::Repeat { body: Box::new(grp(Node::Cat(vec![cls(rng), opt(ch(rng)), opt(grp(ch(rng)))]))), min: qmin, max: qmax, greedy: true, spell: 0 }, ch(rng)]),
        // (?:(?:x|(a+))*b)*ac : the group sits in an alternative of an inner loop
        2 => {
            let inner = Node::Repeat { body: Box::new(Node::NcGroup(Box::new(Node::Alt(vec![ch(rng), grp(Node::Repeat { body: Box::new(ch(rng)), min: 1, max: None, greedy: true, spell: 0 })])))), min: rng.below(2), max: None, greedy: rng.chance(3, 4), spell: 0 };
            Node::Cat(vec![lp(Node::Cat(vec![inner, ch(rng)])), ch(rng), ch(rng)])
        }
        // (a|b|abx)*c : alternatives of different lengths directly under the loop
        _ => Node::Cat(vec![Node::Repeat { body: Box::new(grp(Node::Alt(vec![ch(rng), ch(rng), Node::Cat(vec![ch(rng), ch(rng), ch(rng)])]))), min: qmin, max: qmax, greedy: rng.chance(3, 4), spell: 0 }, ch(rng)]),
    }
}

// ---------- hostile strings ----------
pub const HOSTILE_ALPHA: &[char] = &[
    '(', ')', '[', ']', '{', '}', '\\', '?', '*', '+', '|', '.', '^', '$', '-', ',', ':', 'a', 'b', '1', '0', '9', 'p', 'P', 'I', 's', 'L', 'u', 'd', 'w', 'n', ' ', '\n', '\u{0}', '\u{300}', '\u{FFFF}', '\u{10400}', '\u{10FFFF}',
];

pub fn gen_garbage(rng: &mut Rng, maxlen: usize) -> String {
    let len = rng.below(maxlen + 1);
    (0..len).map(|_| *rng.pick(HOSTILE_ALPHA)).collect()
}

/// token-level mutation of a pattern string
pub fn mutate(rng: &mut Rng, p: &str) -> String {
    let mut v: Vec<char> = p.chars().collect();
    let n = 1 + rng.below(3);
    for _ in 0..n {
        let k = rng.below(7);
        if v.is_empty() {
            v.push(*rng.pick(HOSTILE_ALPHA));
            continue;
        }
        let i = rng.below(v.len());
        match k {
            0 => {
                v.remove(i);
            }
            1 => {
                let c = v[i];
                v.insert(i, c);
            }
            2 => {
                let j = rng.below(v.len());
                v.swap(i, j);
            }
            3 => v.truncate(i),
            4 => v.insert(i, *rng.pick(HOSTILE_ALPHA)),
            5 => v[i] = *rng.pick(HOSTILE_ALPHA),
            _ => {
                // corrupt / insert a quantifier
                let q = *rng.pick(&["{", "{,", "{1,0}", "{2", "{,3}", "**", "+?*", "{99999999999999999999}", "{1,}?", "??"]);
                for (j, c) in q.chars().enumerate() {
                    v.insert((i + j).min(v.len()), c);
                }
            }
        }
    }
    v.into_iter().collect()
}

pub fn extreme_bound(rng: &mut Rng) -> String {
    rng.pick(&[
        "0", "1", "2", "4294967295", "4294967296", "4294967297", "9223372036854775807", "9223372036854775808", "18446744073709551615", "18446744073709551616", "99999999999999999999999", "65536", "1000000",
    ])
    .to_string()
}
