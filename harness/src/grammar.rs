// Independent recogniser / parser for the XSD 1.1 (Part 2, App. G) regular-expression grammar
// and the XPath 3.1 (F&O 3.1 §5.6.1) extensions: ^ $ as meta-characters, reluctant quantifiers,
// non-capturing groups, back-references, \$.
// Verdicts: Valid(ast) | Invalid(reason) | Unsure(reason) — Unsure where the productions and the
// prose of the specification are commonly read differently; those cases are counted, not judged.
use crate::ast::*;
use crate::uoracle;

#[derive(Debug, Clone, PartialEq)]
pub enum Parsed {
    Valid(Node),
    Invalid(String),
    Unsure(String),
}

enum E {
    Invalid(String),
}

type R<T> = Result<T, E>;

fn inv<T>(s: &str) -> R<T> {
    Err(E::Invalid(s.to_string()))
}

/// flag x: remove #x9 #xA #xD #x20 outside character class expressions
pub fn strip_x(p: &str) -> String {
    let mut out = String::new();
    let mut depth = 0i32;
    let mut esc = false;
    for c in p.chars() {
        if esc {
            // the character after a backslash is never a bracket; whitespace outside a class is
            // still removed (the backslash then applies to the next remaining character)
            if depth == 0 && matches!(c, '\t' | '\n' | '\r' | ' ') {
                continue;
            }
            esc = false;
            out.push(c);
            continue;
        }
        match c {
            '\\' => {
                esc = true;
                out.push(c)
            }
            '[' => {
                depth += 1;
                out.push(c)
            }
            ']' => {
                depth -= 1;
                out.push(c)
            }
            '\t' | '\n' | '\r' | ' ' if depth <= 0 => {}
            _ => out.push(c),
        }
    }
    out
}

struct P {
    c: Vec<char>,
    i: usize,
    xsd: bool,
    opened: usize,      // capturing groups opened so far
    closed: Vec<usize>, // capturing groups closed so far
    unsure: Option<String>,
    depth: usize,
}

pub fn parse(pattern: &str, xsd: bool, x_flag: bool) -> Parsed {
    let text = if x_flag { strip_x(pattern) } else { pattern.to_string() };
    let mut p = P { c: text.chars().collect(), i: 0, xsd, opened: 0, closed: vec![], unsure: None, depth: 0 };
    let r = p.regexp();
    let r = match r {
        Ok(n) => {
            if p.i < p.c.len() {
                // only ')' can stop regexp() early
                Err(E::Invalid(format!("unmatched '{}' at {}", p.c[p.i], p.i)))
            } else {
                Ok(n)
            }
        }
        Err(e) => Err(e),
    };
    if let Some(u) = p.unsure {
        return Parsed::Unsure(u);
    }
    match r {
        Ok(n) => Parsed::Valid(n),
        Err(E::Invalid(m)) => Parsed::Invalid(m),
    }
}

impl P {
    fn peek(&self) -> Option<char> {
        self.c.get(self.i).copied()
    }
    fn peek_at(&self, k: usize) -> Option<char> {
        self.c.get(self.i + k).copied()
    }
    fn regexp(&mut self) -> R<Node> {
        self.depth += 1;
        if self.depth > 400 {
            self.unsure = Some("nesting too deep for the recogniser".into());
            return inv("too deep");
        }
        let mut branches = vec![self.branch()?];
        while self.peek() == Some('|') {
            self.i += 1;
            branches.push(self.branch()?);
        }
        self.depth -= 1;
        Ok(if branches.len() == 1 { branches.pop().unwrap() } else { Node::Alt(branches) })
    }
    fn branch(&mut self) -> R<Node> {
        let mut pieces = vec![];
        while let Some(c) = self.peek() {
            if c == '|' || c == ')' {
                break;
            }
            pieces.push(self.piece()?);
        }
        Ok(match pieces.len() {
            0 => Node::Empty,
            1 => pieces.pop().unwrap(),
            _ => Node::Cat(pieces),
        })
    }
    fn number(&mut self) -> R<Option<usize>> {
        let st = self.i;
        while matches!(self.peek(), Some(c) if c.is_ascii_digit()) {
            self.i += 1;
        }
        if st == self.i {
            return Ok(None);
        }
        let t: String = self.c[st..self.i].iter().collect();
        match t.parse::<u64>() {
            // the grammar has no limit; the implementation's is the machine word
            Ok(v) => Ok(Some(v as usize)),
            _ => {
                self.unsure = Some("quantifier bound beyond implementation limits".into());
                Ok(Some(usize::MAX / 4))
            }
        }
    }
    fn piece(&mut self) -> R<Node> {
        let atom = self.atom()?;
        let (min, max, spell) = match self.peek() {
            Some('?') => {
                self.i += 1;
                (0, Some(1), 0)
            }
            Some('*') => {
                self.i += 1;
                (0, None, 0)
            }
            Some('+') => {
                self.i += 1;
                (1, None, 0)
            }
            Some('{') => {
                self.i += 1;
                let n = match self.number()? {
                    Some(n) => n,
                    None => return inv("quantifier: digit expected after '{'"),
                };
                match self.peek() {
                    Some('}') => {
                        self.i += 1;
                        (n, Some(n), 1)
                    }
                    Some(',') => {
                        self.i += 1;
                        let m = self.number()?;
                        if self.peek() != Some('}') {
                            return inv("quantifier: '}' expected");
                        }
                        self.i += 1;
                        match m {
                            None => (n, None, 1),
                            Some(m) => {
                                if m < n {
                                    return inv("quantifier: max < min");
                                }
                                (n, Some(m), 2)
                            }
                        }
                    }
                    _ => return inv("quantifier: ',' or '}' expected"),
                }
            }
            _ => return Ok(atom),
        };
        let mut greedy = true;
        if self.peek() == Some('?') {
            if self.xsd {
                return inv("reluctant quantifier in XSD dialect");
            }
            self.i += 1;
            greedy = false;
        }
        // a second quantifier is not a piece
        if matches!(self.peek(), Some('?') | Some('*') | Some('+') | Some('{')) {
            return inv("double quantifier");
        }
        Ok(Node::Repeat { body: Box::new(atom), min, max, greedy, spell })
    }
    fn atom(&mut self) -> R<Node> {
        let c = self.peek().unwrap();
        match c {
            '(' => {
                self.i += 1;
                let capturing = if self.peek() == Some('?') {
                    // "(?" can only be "(?:" in XPath; in XSD '?' here is a quantifier without atom
                    if self.xsd {
                        return inv("'?' after '(' (non-capturing groups are XPath only)");
                    }
                    if self.peek_at(1) == Some(':') {
                        self.i += 2;
                        false
                    } else {
                        return inv("'(?' not followed by ':'");
                    }
                } else {
                    true
                };
                let my = if capturing {
                    self.opened += 1;
                    self.opened
                } else {
                    0
                };
                let inner = self.regexp()?;
                if self.peek() != Some(')') {
                    return inv("missing ')'");
                }
                self.i += 1;
                if capturing {
                    self.closed.push(my);
                    Ok(Node::Group(Box::new(inner)))
                } else {
                    Ok(Node::NcGroup(Box::new(inner)))
                }
            }
            ')' => inv("unexpected ')'"),
            '[' => Ok(Node::Class(self.class_expr()?)),
            ']' => inv("unescaped ']'"),
            '?' | '*' | '+' | '{' => inv("quantifier without atom"),
            '}' => inv("unescaped '}'"),
            '|' => unreachable!(),
            '.' => {
                self.i += 1;
                Ok(Node::Dot)
            }
            '^' if !self.xsd => {
                self.i += 1;
                Ok(Node::Bol)
            }
            '$' if !self.xsd => {
                self.i += 1;
                Ok(Node::Eol)
            }
            '\\' => self.escape_outside(),
            c => {
                self.i += 1;
                Ok(Node::Char(c))
            }
        }
    }
    fn single_char_esc(&self, e: char) -> Option<char> {
        match e {
            'n' => Some('\n'),
            'r' => Some('\r'),
            't' => Some('\t'),
            '\\' | '|' | '.' | '?' | '*' | '+' | '(' | ')' | '{' | '}' | '-' | '[' | ']' | '^' => Some(e),
            '$' if !self.xsd => Some('$'),
            _ => None,
        }
    }
    fn prop(&mut self) -> R<(bool, String)> {
        // at 'p' or 'P'
        let pos = self.peek() == Some('p');
        self.i += 1;
        if self.peek() != Some('{') {
            return inv("'{' expected after \\p");
        }
        self.i += 1;
        let st = self.i;
        while let Some(c) = self.peek() {
            if c == '}' {
                break;
            }
            self.i += 1;
        }
        if self.peek() != Some('}') {
            return inv("'}' expected after \\p{");
        }
        let name: String = self.c[st..self.i].iter().collect();
        self.i += 1;
        if !uoracle::prop_name_known(&name) {
            return inv("unknown category or block name");
        }
        Ok((pos, name))
    }
    fn escape_outside(&mut self) -> R<Node> {
        self.i += 1; // backslash
        let e = match self.peek() {
            Some(e) => e,
            None => return inv("dangling backslash"),
        };
        if let Some(c) = self.single_char_esc(e) {
            self.i += 1;
            return Ok(Node::Char(c));
        }
        match e {
            's' | 'S' | 'i' | 'I' | 'c' | 'C' | 'd' | 'D' | 'w' | 'W' => {
                self.i += 1;
                Ok(Node::Esc(e))
            }
            'p' | 'P' => {
                let (pos, name) = self.prop()?;
                Ok(Node::Prop(pos, name))
            }
            '1'..='9' if !self.xsd => {
                // longest number not exceeding the number of groups opened so far
                let mut n = e.to_digit(10).unwrap() as usize;
                self.i += 1;
                while let Some(d) = self.peek().and_then(|c| c.to_digit(10)) {
                    let n2 = n * 10 + d as usize;
                    if n2 > self.opened {
                        break;
                    }
                    n = n2;
                    self.i += 1;
                }
                if n > self.opened {
                    return inv("back-reference to a group that does not exist");
                }
                if !self.closed.contains(&n) {
                    return inv("back-reference to a group that is not yet closed");
                }
                Ok(Node::Backref(n))
            }
            _ => inv("unknown escape"),
        }
    }
    // charClassExpr ::= '[' charGroup ']'
    fn class_expr(&mut self) -> R<ClassExpr> {
        self.i += 1; // '['
        let mut neg = false;
        if self.peek() == Some('^') {
            neg = true;
            self.i += 1;
        }
        let mut items: Vec<ClassItem> = vec![];
        let mut sub = None;
        let mut first = true;
        loop {
            let c = match self.peek() {
                None => return inv("unterminated character class"),
                Some(c) => c,
            };
            if c == ']' {
                if items.is_empty() {
                    return inv("empty character group");
                }
                self.i += 1;
                break;
            }
            if c == '[' {
                return inv("unescaped '[' in character group");
            }
            if c == '-' && self.peek_at(1) == Some('[') {
                if items.is_empty() {
                    return inv("nothing before subtraction");
                }
                self.i += 1;
                sub = Some(Box::new(self.class_expr()?));
                if self.peek() != Some(']') {
                    return inv("']' expected after subtraction");
                }
                self.i += 1;
                break;
            }
            // one charGroupPart
            let left = self.class_atom(first)?;
            first = false;
            match left {
                CA::Multi(it) => {
                    // a multi-character escape cannot start a range; a following '-' that is not
                    // last / subtraction is a disputed position
                    if self.peek() == Some('-') && !matches!(self.peek_at(1), Some(']') | Some('[')) && !self.hyphen_then_subtraction() {
                        self.unsure = Some("hyphen after a multi-character escape".into());
                    }
                    items.push(it)
                }
                CA::Single(a, a_is_raw_hyphen) => {
                    if self.peek() == Some('-') && !matches!(self.peek_at(1), Some(']') | Some('[') | None) && !self.hyphen_then_subtraction() {
                        // range a-b
                        if a_is_raw_hyphen {
                            self.unsure = Some("unescaped hyphen as range start".into());
                        }
                        self.i += 1;
                        let right = self.class_atom(false)?;
                        match right {
                            CA::Multi(_) => return inv("multi-character escape as range end"),
                            CA::Single(b, b_is_raw_hyphen) => {
                                if b_is_raw_hyphen {
                                    self.unsure = Some("unescaped hyphen as range end".into());
                                }
                                if a > b {
                                    return inv("reversed range");
                                }
                                items.push(ClassItem::Range(a, b));
                                // "a-b-c": hyphen directly after a range, not last / subtraction
                                if self.peek() == Some('-') && !matches!(self.peek_at(1), Some(']') | Some('[')) && !self.hyphen_then_subtraction() {
                                    self.unsure = Some("hyphen directly after a range".into());
                                }
                            }
                        }
                    } else {
                        if a_is_raw_hyphen && !(items.is_empty() || self.peek() == Some(']') || (self.peek() == Some('-') && self.peek_at(1) == Some('['))) {
                            self.unsure = Some("unescaped hyphen in the middle of a character group".into());
                        }
                        if a_is_raw_hyphen && (matches!(items.last(), Some(ClassItem::Ch('-'))) || (self.peek() == Some('-') && self.peek_at(1) != Some('['))) {
                            self.unsure = Some("adjacent unescaped hyphens in a character group".into());
                        }
                        items.push(ClassItem::Ch(a))
                    }
                }
            }
        }
        Ok(ClassExpr { neg, items, sub })
    }
    /// "--[" ahead: the first hyphen is the last character of the positive group (a literal
    /// hyphen, legal at the end of a group), the second one introduces the subtraction
    fn hyphen_then_subtraction(&self) -> bool {
        self.peek() == Some('-') && self.peek_at(1) == Some('-') && self.peek_at(2) == Some('[')
    }
    fn class_atom(&mut self, _first: bool) -> R<CA> {
        let c = match self.peek() {
            None => return inv("unterminated character class"),
            Some(c) => c,
        };
        match c {
            '[' => inv("unescaped '[' in character group"),
            ']' => inv("']' where a character was expected"),
            '\\' => {
                self.i += 1;
                let e = match self.peek() {
                    Some(e) => e,
                    None => return inv("dangling backslash"),
                };
                if let Some(x) = self.single_char_esc(e) {
                    self.i += 1;
                    return Ok(CA::Single(x, false));
                }
                match e {
                    's' | 'S' | 'i' | 'I' | 'c' | 'C' | 'd' | 'D' | 'w' | 'W' => {
                        self.i += 1;
                        Ok(CA::Multi(ClassItem::Esc(e)))
                    }
                    'p' | 'P' => {
                        let (pos, name) = self.prop()?;
                        Ok(CA::Multi(ClassItem::Prop(pos, name)))
                    }
                    '0'..='9' => inv("back-reference or digit escape inside a character class"),
                    _ => inv("unknown escape"),
                }
            }
            '-' => {
                self.i += 1;
                Ok(CA::Single('-', true))
            }
            c => {
                self.i += 1;
                Ok(CA::Single(c, false))
            }
        }
    }
}

enum CA {
    Single(char, bool),
    Multi(ClassItem),
}

/// flag string: the part before the first ';' must be over {s,m,i,x,q} (q only in XPath)
pub fn flags_valid(f: &str, xsd: bool) -> Option<bool> {
    let main = match f.find(';') {
        Some(i) => &f[..i],
        None => f,
    };
    for c in main.chars() {
        match c {
            's' | 'm' | 'i' | 'x' => {}
            'q' => {
                if xsd {
                    return Some(false);
                }
            }
            _ => return Some(false),
        }
    }
    if f.contains(';') {
        // the suffix of engine-specific options is set aside by the property: not judged when the
        // main part is valid
        return None;
    }
    Some(true)
}
