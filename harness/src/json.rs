// Minimal JSON value, writer and parser (no external crates).
use std::collections::BTreeMap;

#[derive(Clone, Debug, PartialEq)]
pub enum J {
    Null,
    Bool(bool),
    Int(i64),
    Num(f64),
    Str(String),
    Arr(Vec<J>),
    Obj(BTreeMap<String, J>),
}

impl J {
    pub fn obj() -> J {
        J::Obj(BTreeMap::new())
    }
    pub fn set(&mut self, k: &str, v: J) -> &mut J {
        if let J::Obj(m) = self {
            m.insert(k.to_string(), v);
        }
        self
    }
    pub fn with(mut self, k: &str, v: J) -> J {
        self.set(k, v);
        self
    }
    pub fn get(&self, k: &str) -> Option<&J> {
        match self {
            J::Obj(m) => m.get(k),
            _ => None,
        }
    }
    pub fn str(&self, k: &str) -> Option<&str> {
        match self.get(k) {
            Some(J::Str(s)) => Some(s),
            _ => None,
        }
    }
    pub fn int(&self, k: &str) -> Option<i64> {
        match self.get(k) {
            Some(J::Int(i)) => Some(*i),
            _ => None,
        }
    }
    pub fn s(x: &str) -> J {
        J::Str(x.to_string())
    }
    pub fn u(x: u64) -> J {
        J::Int(x as i64)
    }
    pub fn arr_str(v: &[String]) -> J {
        J::Arr(v.iter().map(|s| J::Str(s.clone())).collect())
    }
    pub fn write(&self, out: &mut String) {
        match self {
            J::Null => out.push_str("null"),
            J::Bool(b) => out.push_str(if *b { "true" } else { "false" }),
            J::Int(i) => out.push_str(&i.to_string()),
            J::Num(f) => {
                if f.is_finite() {
                    out.push_str(&format!("{}", f))
                } else {
                    out.push_str("null")
                }
            }
            J::Str(s) => write_str(s, out),
            J::Arr(v) => {
                out.push('[');
                for (i, x) in v.iter().enumerate() {
                    if i > 0 {
                        out.push(',')
                    }
                    x.write(out)
                }
                out.push(']')
            }
            J::Obj(m) => {
                out.push('{');
                for (i, (k, v)) in m.iter().enumerate() {
                    if i > 0 {
                        out.push(',')
                    }
                    write_str(k, out);
                    out.push(':');
                    v.write(out)
                }
                out.push('}')
            }
        }
    }
    pub fn to_string(&self) -> String {
        let mut s = String::new();
        self.write(&mut s);
        s
    }
    pub fn parse(text: &str) -> Result<J, String> {
        let chars: Vec<char> = text.chars().collect();
        let mut p = P { c: &chars, i: 0 };
        p.ws();
        let v = p.val()?;
        p.ws();
        if p.i != chars.len() {
            return Err(format!("trailing data at {}", p.i));
        }
        Ok(v)
    }
}

fn write_str(s: &str, out: &mut String) {
    out.push('"');
    for c in s.chars() {
        match c {
            '"' => out.push_str("\\\""),
            '\\' => out.push_str("\\\\"),
            '\n' => out.push_str("\\n"),
            '\r' => out.push_str("\\r"),
            '\t' => out.push_str("\\t"),
            c if (c as u32) < 0x20 || c == '\u{7f}' || ('\u{2028}'..='\u{2029}').contains(&c) || ('\u{fff0}'..='\u{ffff}').contains(&c) => out.push_str(&format!("\\u{:04x}", c as u32)),
            c if (c as u32) > 0xFFFF => {
                let v = c as u32 - 0x10000;
                out.push_str(&format!("\\u{:04x}\\u{:04x}", 0xD800 + (v >> 10), 0xDC00 + (v & 0x3FF)));
            }
            c => out.push(c),
        }
    }
    out.push('"');
}

struct P<'a> {
    c: &'a [char],
    i: usize,
}
impl P<'_> {
    fn ws(&mut self) {
        while self.i < self.c.len() && self.c[self.i].is_whitespace() {
            self.i += 1
        }
    }
    fn eat(&mut self, s: &str) -> bool {
        let v: Vec<char> = s.chars().collect();
        if self.c[self.i..].starts_with(&v) {
            self.i += v.len();
            true
        } else {
            false
        }
    }
    fn val(&mut self) -> Result<J, String> {
        self.ws();
        if self.i >= self.c.len() {
            return Err("eof".into());
        }
        if self.eat("null") {
            return Ok(J::Null);
        }
        if self.eat("true") {
            return Ok(J::Bool(true));
        }
        if self.eat("false") {
            return Ok(J::Bool(false));
        }
        match self.c[self.i] {
            '"' => Ok(J::Str(self.string()?)),
            '[' => {
                self.i += 1;
                let mut v = vec![];
                self.ws();
                if self.i < self.c.len() && self.c[self.i] == ']' {
                    self.i += 1;
                    return Ok(J::Arr(v));
                }
                loop {
                    v.push(self.val()?);
                    self.ws();
                    if self.eat(",") {
                        continue;
                    }
                    if self.eat("]") {
                        return Ok(J::Arr(v));
                    }
                    return Err(format!("expected , or ] at {}", self.i));
                }
            }
            '{' => {
                self.i += 1;
                let mut m = BTreeMap::new();
                self.ws();
                if self.i < self.c.len() && self.c[self.i] == '}' {
                    self.i += 1;
                    return Ok(J::Obj(m));
                }
                loop {
                    self.ws();
                    let k = self.string()?;
                    self.ws();
                    if !self.eat(":") {
                        return Err(format!("expected : at {}", self.i));
                    }
                    let v = self.val()?;
                    m.insert(k, v);
                    self.ws();
                    if self.eat(",") {
                        continue;
                    }
                    if self.eat("}") {
                        return Ok(J::Obj(m));
                    }
                    return Err(format!("expected , or }} at {}", self.i));
                }
            }
            _ => {
                let st = self.i;
                while self.i < self.c.len() && (self.c[self.i].is_ascii_digit() || "+-.eE".contains(self.c[self.i])) {
                    self.i += 1
                }
                let t: String = self.c[st..self.i].iter().collect();
                if let Ok(i) = t.parse::<i64>() {
                    Ok(J::Int(i))
                } else if let Ok(f) = t.parse::<f64>() {
                    Ok(J::Num(f))
                } else {
                    Err(format!("bad token at {}", st))
                }
            }
        }
    }
    fn hex4(&mut self) -> Result<u32, String> {
        if self.i + 4 > self.c.len() {
            return Err("bad \\u".into());
        }
        let t: String = self.c[self.i..self.i + 4].iter().collect();
        self.i += 4;
        u32::from_str_radix(&t, 16).map_err(|e| e.to_string())
    }
    fn string(&mut self) -> Result<String, String> {
        if self.i >= self.c.len() || self.c[self.i] != '"' {
            return Err(format!("expected string at {}", self.i));
        }
        self.i += 1;
        let mut s = String::new();
        while self.i < self.c.len() {
            let c = self.c[self.i];
            self.i += 1;
            match c {
                '"' => return Ok(s),
                '\\' => {
                    let e = self.c[self.i];
                    self.i += 1;
                    match e {
                        'n' => s.push('\n'),
                        'r' => s.push('\r'),
                        't' => s.push('\t'),
                        'b' => s.push('\u{8}'),
                        'f' => s.push('\u{c}'),
                        'u' => {
                            let mut v = self.hex4()?;
                            if (0xD800..0xDC00).contains(&v) && self.eat("\\u") {
                                let lo = self.hex4()?;
                                v = 0x10000 + ((v - 0xD800) << 10) + (lo - 0xDC00);
                            }
                            s.push(char::from_u32(v).unwrap_or('\u{fffd}'));
                        }
                        o => s.push(o),
                    }
                }
                c => s.push(c),
            }
        }
        Err("unterminated string".into())
    }
}
