// rxv — runtime-monitoring worker for Paligo/regexml.
//   rxv run --prop C01 --tier quick --seed 1 --shard 0 --nshards 16 --out report.json
//   rxv replay --prop C01 --file witness.json
//   rxv selftest [--repo /repo]
mod ast;
mod core;
mod engine;
mod gen;
mod grammar;
mod json;
mod props;
mod refmodel;
mod selftest;
mod shrink;
mod uoracle;

use crate::core::*;
use json::J;
use props::{Tier, Work};
use std::collections::BTreeMap;
use std::io::{Seek, SeekFrom, Write};
use std::time::Instant;

fn arg(args: &[String], name: &str) -> Option<String> {
    args.iter().position(|a| a == name).and_then(|i| args.get(i + 1).cloned())
}

struct Inflight {
    f: Option<std::fs::File>,
    last_len: usize,
    seq: u64,
}
impl Inflight {
    fn note(&mut self, c: &Case) {
        self.seq += 1;
        if let Some(f) = self.f.as_mut() {
            let mut rec = J::obj().with("seq", J::u(self.seq)).with("case", c.to_json()).to_string();
            rec.push('\n');
            let l = rec.len();
            while rec.len() < self.last_len {
                rec.push(' ');
            }
            self.last_len = l.max(self.last_len);
            let _ = f.seek(SeekFrom::Start(0));
            let _ = f.write_all(rec.as_bytes());
        }
    }
}

fn run(args: &[String]) -> i32 {
    let prop = arg(args, "--prop").expect("--prop");
    let tier = match arg(args, "--tier").as_deref() {
        Some("thorough") => Tier::Thorough,
        _ => Tier::Quick,
    };
    let seed: u64 = arg(args, "--seed").and_then(|s| s.parse().ok()).unwrap_or(0);
    let shard: usize = arg(args, "--shard").and_then(|s| s.parse().ok()).unwrap_or(0);
    let nshards: usize = arg(args, "--nshards").and_then(|s| s.parse().ok()).unwrap_or(1);
    let scale: f64 = arg(args, "--scale").and_then(|s| s.parse().ok()).unwrap_or(1.0);
    let time_cap: f64 = arg(args, "--time-cap").and_then(|s| s.parse().ok()).unwrap_or(1e9);
    let out = arg(args, "--out").expect("--out");
    let max_shrink: usize = arg(args, "--max-shrink").and_then(|s| s.parse().ok()).unwrap_or(60);
    if let Some(f) = arg(args, "--fuel").and_then(|s| s.parse().ok()) {
        engine::set_fuel_limit(f);
    }
    let mon = match props::monitor(&prop) {
        Some(m) => m,
        None => {
            eprintln!("unknown property {}", prop);
            return 2;
        }
    };
    engine::install_panic_hook();
    let work = Work { tier, seed, shard, nshards, scale };
    let t0 = Instant::now();
    let mut rep = Report {
        prop: prop.clone(),
        tier: if tier == Tier::Quick { "quick".into() } else { "thorough".into() },
        seed,
        shard,
        evaluations: 0,
        held: 0,
        inconclusive: BTreeMap::new(),
        violations: vec![],
        violations_total: 0,
        obs: Obs::new(),
        notes: vec![],
        exhaustive: None,
    };
    let mut inflight = Inflight { f: std::fs::File::create(format!("{}.inflight", out)).ok(), last_len: 0, seq: 0 };
    let exclude: Vec<u64> = arg(args, "--exclude-seq").map(|s| s.split(',').filter_map(|x| x.parse().ok()).collect()).unwrap_or_default();
    let mut seen_pat: std::collections::HashSet<u64> = std::collections::HashSet::new();
    let mut seen_viol: std::collections::HashSet<u64> = std::collections::HashSet::new();
    let mut truncated = false;
    let mut shrink_budget_left = max_shrink;

    let mut handle = |c: Case, rep: &mut Report, inflight: &mut Inflight, is_corpus: bool| {
        inflight.note(&c);
        if exclude.contains(&inflight.seq) {
            *rep.inconclusive.entry("excluded_after_abort_or_hang".to_string()).or_insert(0) += 1;
            return;
        }
        rep.evaluations += 1;
        let o = mon.check(&c, &mut rep.obs);
        let probes = regexml::verif::take_probes();
        for (i, n) in probes.iter().enumerate() {
            if *n > 0 {
                rep.obs.add(&format!("probe_{}", regexml::verif::PROBE_NAMES[i]), *n);
            }
        }
        match o {
            Outcome::Held => rep.held += 1,
            Outcome::Inconclusive(r) => *rep.inconclusive.entry(r.to_string()).or_insert(0) += 1,
            Outcome::Violated(fs) => {
                rep.violations_total += 1;
                let f = fs.into_iter().next().unwrap();
                let vkey = c.key() ^ gen::hash_str(&f.kind);
                if !seen_viol.insert(vkey) {
                    return;
                }
                // one minimisation per distinct failing (kind, pattern, flags)
                let pkey = gen::hash_str(&c.pattern) ^ gen::hash_str(&f.kind).rotate_left(7) ^ gen::hash_str(&c.flags).rotate_left(29) ^ c.repl.as_deref().map(gen::hash_str).unwrap_or(0).rotate_left(41);
                if !seen_pat.insert(pkey) {
                    rep.obs.count("violations_same_pattern_not_reminimised");
                    return;
                }
                if is_corpus {
                    rep.obs.count("corpus_violations");
                }
                let kind = f.kind.clone();
                let (min, complete) = if shrink_budget_left > 0 {
                    shrink_budget_left -= 1;
                    let mut scratch = Obs::scratch();
                    let mut pred = |c2: &Case| -> bool {
                        match mon.check(c2, &mut scratch) {
                            Outcome::Violated(fs2) => fs2.iter().any(|g| g.kind == kind),
                            _ => false,
                        }
                    };
                    let mut c0 = mon.focus(&c, &f);
                    if mon.shrink_text() {
                        c0.ast = None;
                    }
                    shrink::shrink(&c0, &mut pred, 4000)
                } else {
                    (c.clone(), false)
                };
                let _ = regexml::verif::take_probes();
                // re-derive the finding on the minimised case (observed/expected of the witness)
                let mut scratch = Obs::scratch();
                let f2 = match mon.check(&min, &mut scratch) {
                    Outcome::Violated(fs2) => fs2.into_iter().find(|g| g.kind == kind).unwrap_or(f.clone()),
                    _ => f.clone(),
                };
                let mut min = min;
                mon.annotate(&mut min);
                let facts = facts_of(&min, &f2);
                rep.violations.push(Violation { finding: f2, original: c, minimized: min, shrink_complete: complete, facts });
            }
        }
    };

    if shard == 0 {
        for c in mon.corpus() {
            handle(c, &mut rep, &mut inflight, true);
        }
        if let Some(cf) = arg(args, "--corpus") {
            let text = std::fs::read_to_string(&cf).expect("read corpus");
            if let Ok(J::Arr(v)) = J::parse(&text) {
                for cj in v {
                    handle(Case::from_json(&cj), &mut rep, &mut inflight, true);
                }
            }
        }
    }
    let corpus_n = rep.evaluations;
    let desc = mon.workload(&work, &mut |c: Case| {
        if truncated {
            return;
        }
        if rep.evaluations % 256 == 0 && t0.elapsed().as_secs_f64() > time_cap {
            truncated = true;
            return;
        }
        handle(c, &mut rep, &mut inflight, false);
    });
    if truncated {
        rep.notes.push(format!("workload truncated by the wall-clock cap of {} s", time_cap));
    }
    rep.exhaustive = Some(desc);
    let mut j = rep.to_json();
    j.set("corpus_cases", J::u(corpus_n));
    j.set("truncated", J::Bool(truncated));
    j.set("wall_s", J::Num(t0.elapsed().as_secs_f64()));
    j.set("rule", J::s(mon.rule()));
    std::fs::write(&out, j.to_string()).expect("write report");
    // hashes of distinct non-trivial cases, for cross-shard union
    let mut hb = Vec::with_capacity(rep.obs.hashes.len() * 8);
    for h in &rep.obs.hashes {
        hb.extend_from_slice(&h.to_le_bytes());
    }
    let _ = std::fs::write(format!("{}.hashes", out), hb);
    let _ = std::fs::remove_file(format!("{}.inflight", out));
    0
}

fn replay(args: &[String]) -> i32 {
    let prop = arg(args, "--prop").expect("--prop");
    let file = arg(args, "--file").expect("--file");
    let text = std::fs::read_to_string(&file).expect("read witness");
    let j = J::parse(&text).expect("parse witness");
    let cj = j.get("case").cloned().unwrap_or(j.clone());
    let c = Case::from_json(&cj);
    let mon = props::monitor(&prop).expect("unknown property");
    engine::install_panic_hook();
    if let Some(f) = arg(args, "--fuel").and_then(|s| s.parse().ok()) {
        engine::set_fuel_limit(f);
    }
    // ablation replay: switch off the mechanism a recorded finding blames (hook H5)
    if let Some(m) = arg(args, "--ablate").and_then(|s| s.parse::<u32>().ok()) {
        regexml::verif::set_ablation(m);
    }
    let mut obs = Obs::new();
    match mon.check(&c, &mut obs) {
        Outcome::Held => {
            println!("REPLAY held: {}", cj.to_string());
            0
        }
        Outcome::Inconclusive(r) => {
            println!("REPLAY inconclusive ({}): {}", r, cj.to_string());
            3
        }
        Outcome::Violated(fs) => {
            for f in &fs {
                let facts = facts_of(&c, f);
                println!("REPLAY violated kind={} observed={:?} expected={:?} facts={} case={}", f.kind, f.observed, f.expected, facts.to_string(), cj.to_string());
            }
            1
        }
    }
}

/// Ablation replay of a batch of witnesses (hook H5). Input: one JSON object per line with
/// "case", "kind" and "mask"; the case is re-checked with the ablation switches of the mask on.
/// Output (same order, one line each): "gone" if the monitor no longer reports a violation,
/// "other" if it reports different violations only (another kind, or another observation of the
/// same kind - an artefact of the ablation), "same" if the same kind and observation persist,
/// "inconclusive" if the monitor cannot judge the ablated run.
fn ablate(args: &[String]) -> i32 {
    let prop = arg(args, "--prop").expect("--prop");
    let file = arg(args, "--file").expect("--file");
    let out = arg(args, "--out").expect("--out");
    let text = std::fs::read_to_string(&file).expect("read batch");
    let mon = props::monitor(&prop).expect("unknown property");
    engine::install_panic_hook();
    engine::set_fuel_limit(arg(args, "--fuel").and_then(|s| s.parse().ok()).unwrap_or(20_000_000));
    let mut res = String::new();
    use std::io::Write;
    let mut f = std::fs::File::create(&out).expect("create out");
    for line in text.lines() {
        let line = line.trim();
        if line.is_empty() {
            continue;
        }
        let j = match J::parse(line) {
            Ok(j) => j,
            Err(_) => {
                let _ = writeln!(f, "inconclusive");
                continue;
            }
        };
        let c = Case::from_json(j.get("case").unwrap_or(&j));
        let kind = j.str("kind").unwrap_or("").to_string();
        let observed = j.str("observed").map(|s| s.to_string());
        let mask = j.int("mask").unwrap_or(0) as u32;
        regexml::verif::set_ablation(mask);
        let mut obs = Obs::new();
        obs.quiet = true;
        let o = std::panic::catch_unwind(std::panic::AssertUnwindSafe(|| mon.check(&c, &mut obs)));
        regexml::verif::set_ablation(0);
        res.clear();
        res.push_str(match o {
            Ok(Outcome::Held) => "gone",
            Ok(Outcome::Inconclusive(_)) => "inconclusive",
            Ok(Outcome::Violated(fs)) => {
                if fs.iter().any(|x| x.kind == kind && observed.as_ref().map_or(true, |o| *o == x.observed)) {
                    "same"
                } else {
                    "other"
                }
            }
            Err(_) => "inconclusive",
        });
        let _ = writeln!(f, "{}", res);
        let _ = f.flush();
    }
    0
}

/// small self-contained workloads for the sanitizer lanes (Miri, ASan, TSan): no file I/O, results
/// on stdout; every API result is still checked by the C05 / C18 monitors
fn lane(args: &[String]) -> i32 {
    let kind = arg(args, "--kind").unwrap_or_else(|| "mem".to_string());
    let n: usize = arg(args, "--n").and_then(|s| s.parse().ok()).unwrap_or(10);
    let seed: u64 = arg(args, "--seed").and_then(|s| s.parse().ok()).unwrap_or(1);
    if let Some(f) = arg(args, "--fuel").and_then(|s| s.parse().ok()) {
        engine::set_fuel_limit(f);
    }
    engine::install_panic_hook();
    let mut obs = Obs::new();
    let mut violations = vec![];
    let mut cases = 0u64;
    if kind == "mem" {
        let mon = props::monitor("C05").unwrap();
        let mut rng = gen::Rng::derive(seed, &[0x1a4e]);
        for k in 0..n {
            let (p, _) = props::hostileprops::gen_hostile(&mut rng, 6);
            let inp = props::hostileprops::hostile_input(&mut rng, &p);
            let mut c = Case::raw(&p, ["", "i", "m", "x", "q", "s"][k % 6], &inp);
            c.aux = Some("lane".to_string());
            cases += 1;
            if let Outcome::Violated(f) = mon.check(&c, &mut obs) {
                violations.push(J::obj().with("case", c.to_json()).with("kind", J::s(&f[0].kind)).with("observed", J::s(&f[0].observed)));
            }
        }
    } else {
        let mon = props::monitor("C18").unwrap();
        for k in 0..n {
            let mut c = Case::raw("", "", "");
            c.aux = Some(format!("{}:{}:{}{}", seed * 1000 + k as u64, 2 + k % 3, 6 + k % 5, if k == 0 { ":init" } else { "" }));
            cases += 1;
            if let Outcome::Violated(f) = mon.check(&c, &mut obs) {
                violations.push(J::obj().with("case", c.to_json()).with("kind", J::s(&f[0].kind)).with("observed", J::s(&f[0].observed)));
            }
        }
    }
    let mut counters = J::obj();
    for (k, v) in &obs.counters {
        counters.set(k, J::u(*v));
    }
    let out = J::obj().with("lane", J::s(&kind)).with("seed", J::u(seed)).with("cases", J::u(cases)).with("engine_calls", J::u(engine::TOTAL_CALLS.with(|c| c.get()))).with("counters", counters).with("violations", J::Arr(violations.clone()));
    println!("LANE-RESULT {}", out.to_string());
    if violations.is_empty() {
        0
    } else {
        1
    }
}

fn main() {
    let args: Vec<String> = std::env::args().collect();
    let code = match args.get(1).map(|s| s.as_str()) {
        Some("run") => run(&args),
        Some("replay") => replay(&args),
        Some("selftest") => selftest::main(&args),
        Some("lane") => lane(&args),
        Some("ablate") => ablate(&args),
        Some("primer") => props::c18::primer_main(args.get(2).map(|s| s.as_str()).unwrap_or("none")),
        _ => {
            eprintln!("usage: rxv run|replay|selftest ...");
            2
        }
    };
    std::process::exit(code);
}
