// C01 — is_match decides membership of some substring in the regex's language.
// Oracle: set semantics of the reference model (order-independent match relation).
use super::*;
use crate::engine;
use crate::gen::*;
use crate::refmodel::{Flags, Model};

pub struct C01;

/// is_match according to the match relation; where the capture semantics inside loops matters
/// (back-reference to a group inside a loop) both readings must agree
pub fn expected_is_match(ast: &Node, flags: Flags, input: &[char]) -> Result<bool, &'static str> {
    let model = Model::new(ast, flags);
    let a = model.is_match_set(input).map_err(|_| "oracle_budget")?;
    if ast.has_backref() && ast.has_group_in_loop() {
        let b = Model::new(ast, flags).with_reset().is_match_set(input).map_err(|_| "oracle_budget")?;
        if a != b {
            return Err("capture_semantics_disputed");
        }
    }
    Ok(a)
}

pub fn small_atoms() -> Vec<Node> {
    vec![
        Node::Char('a'),
        Node::Char('b'),
        Node::Dot,
        Node::Class(crate::ast::ClassExpr { neg: false, items: vec![crate::ast::ClassItem::Ch('a'), crate::ast::ClassItem::Ch('b')], sub: None }),
        Node::Bol,
        Node::Eol,
    ]
}
pub fn small_quants() -> Vec<(usize, Option<usize>, bool)> {
    vec![(0, Some(1), true), (0, None, true), (1, None, true), (0, Some(1), false), (0, None, false), (1, None, false), (2, Some(2), true), (1, Some(2), true), (0, Some(2), false)]
}

impl Monitor for C01 {
    fn rule(&self) -> &'static str {
        "cases = (pattern AST rendered to text, flags subset of {i,m,s}, input); strata: bounded-exhaustive small ASTs x all short inputs over {a,b,\\n}; seeded random structured patterns x random inputs biased to the pattern's alphabet; shortcut-biased shapes. Oracle: match relation (set semantics) of the reference model. A case is non-trivial when the AST has >= 2 nodes and the input is non-empty; distinct = distinct (pattern, flags, input) hash."
    }

    fn check(&self, c: &Case, obs: &mut Obs) -> Outcome {
        let ast = match ast_of(c) {
            Some(a) => a,
            None => return Outcome::Inconclusive("no_ast"),
        };
        let flags = Flags::parse(&c.flags);
        let input: Vec<char> = c.input.chars().collect();
        let expected = match expected_is_match(&ast, flags, &input) {
            Ok(b) => b,
            Err(r) => return Outcome::Inconclusive(r),
        };
        let re = match engine::compile(&c.pattern, &c.flags, c.dialect) {
            Ok(Ok(re)) => re,
            Ok(Err(_)) => return Outcome::Inconclusive("rejected_by_compiler"),
            Err(engine::Fail::Fuel) => return Outcome::Inconclusive("fuel"),
            Err(f) => return Outcome::Violated(vec![Finding::new("panic_compile", f.describe(), "Ok or classified Err")]),
        };
        let got = match engine::is_match(&re, &c.input) {
            Ok(b) => b,
            Err(engine::Fail::Fuel) => return Outcome::Inconclusive("fuel"),
            Err(f) => return Outcome::Violated(vec![Finding::new("panic_is_match", f.describe(), format!("{}", expected))]),
        };
        obs.count(if expected { "oracle_true" } else { "oracle_false" });
        if ast.size() >= 2 && !input.is_empty() {
            obs.nontrivial(c.key());
        }
        if obs.want_sample() && ast.size() >= 3 && !input.is_empty() {
            obs.sample(c.to_json().with("engine", J::Bool(got)).with("oracle", J::Bool(expected)));
        }
        if got != expected {
            let kind = if expected { "is_match_false_negative" } else { "is_match_false_positive" };
            return Outcome::Violated(vec![Finding::new(kind, format!("{}", got), format!("{}", expected))]);
        }
        // metamorphic side monitor (oracle-free): a match survives adding context, for patterns
        // without anchors and back-references
        if got && !ast.has_anchor() && !ast.has_backref() {
            let ext = format!("b{}a", c.input);
            match engine::is_match(&re, &ext) {
                Ok(true) => obs.count("context_extension_held"),
                Ok(false) => return Outcome::Violated(vec![Finding::new("context_extension_lost_match", format!("is_match({:?})=false", ext), "true (matched without context)")]),
                Err(engine::Fail::Fuel) => {}
                Err(f) => return Outcome::Violated(vec![Finding::new("panic_is_match", f.describe(), "true")]),
            }
        }
        Outcome::Held
    }

    fn workload(&self, w: &Work, emit: &mut dyn FnMut(Case)) -> J {
        let mut desc = J::obj();
        // (a) bounded-exhaustive: every AST with <= N operators x every input of length <= L
        let (n_ops, len) = if w.quick() { (2, 3) } else { (3, 4) };
        let inputs = all_inputs(&['a', 'b', '\n'], len);
        let mut idx = 0u64;
        let mut patterns = 0u64;
        for ops in 0..=n_ops {
            for ast in enumerate_small(ops, &small_atoms(), &small_quants()) {
                idx += 1;
                if !w.mine(idx) {
                    continue;
                }
                patterns += 1;
                let anch = ast.has_anchor();
                let dot = ast.has_dot();
                for fl in ["", "m", "s", "ms", "i"] {
                    if (fl.contains('m') && !anch) || (fl.contains('s') && !dot) || (fl == "i" && ops > 1) {
                        continue;
                    }
                    for inp in &inputs {
                        emit(Case::new(&ast, fl, inp));
                    }
                }
            }
        }
        desc.set(
            "exhaustive_small",
            J::obj().with("max_operators", J::u(n_ops as u64)).with("patterns_total", J::u(idx)).with("patterns_this_shard", J::u(patterns)).with("inputs_per_pattern", J::u(inputs.len() as u64)).with("input_alphabet", J::s("a b \\n")).with("max_input_len", J::u(len as u64)),
        );
        // (b) random structured patterns under every flag subset
        let n = w.share(200_000, 6_000_000);
        let mut rng = w.rng("C01", 1);
        let cfg = GenCfg::std(STD_ALPHA);
        for k in 0..n {
            // (one in sixteen: the back-reference shapes of C19 - group in an abandoned alternative,
            // optional group, group in a loop - where is_match depends on captures being forgotten)
            let ast = if k % 16 == 9 { super::refprops::gen_backref_shape(&mut rng) } else if k % 4 == 3 { gen_shortcut(&mut rng, &cfg) } else { gen_pattern(&mut rng, &cfg) };
            let fl = FLAG_SUBSETS[rng.below(FLAG_SUBSETS.len())];
            for _ in 0..3 {
                let inp = gen_input(&mut rng, &ast, STD_EXTRA, 8);
                emit(Case::new(&ast, fl, &inp));
            }
        }
        desc.set("random_patterns_this_shard", J::u(n));
        desc.set("inputs_per_random_pattern", J::u(3));
        desc
    }

    fn corpus(&self) -> Vec<Case> {
        let mut v = vec![];
        for (p, f, s) in [
            ("\\s*\\n", "i", "\n"),
            ("1*1", "i", "1"),
            ("a*A", "i", "a"),
            ("\\d*1", "i", "1"),
            ("a*^a", "", "aa"),
            ("\\n*$\\nb", "m", "\n\nb"),
            ("($)+.", "", "a"),
            ("^(?:a?){2}$", "", "aaa"),
            ("()^a", "m", "\na"),
            ("b*^a", "m", "\na"),
            ("(?:a|bb)+?c", "", "cc"),
            ("^(?:b|(a))\\1$", "", "b"),
        ] {
            v.push(Case::raw(p, f, s));
        }
        v
    }
}
