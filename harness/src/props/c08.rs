// C08 — compile-time optimisations never change any result.
// Oracle: the same engine with Operation::optimize and the ReProgram shortcuts switched off (hook H1).
// Side monitor (invariant at a hook): the facts the search loop relies on (prefix, initial class,
// minimum length) are consistent with every match the unoptimised engine finds.
use super::refcheck::api;
use super::*;
use crate::engine::{self, AEntry, ErrKind, Fail};
use crate::gen::*;

pub struct C08;

fn show<T: std::fmt::Debug>(r: &Result<T, Fail>) -> String {
    match r {
        Ok(v) => {
            let s = format!("{:?}", v);
            if s.len() > 300 {
                format!("{}...", &s[..s.char_indices().nth(300).map(|x| x.0).unwrap_or(s.len())])
            } else {
                s
            }
        }
        Err(f) => f.describe(),
    }
}

/// compare one API result of both engines; fuel exhaustion on both sides is inconclusive, on one side a difference
fn same<T: PartialEq + std::fmt::Debug>(what: &str, a: &Result<T, Fail>, b: &Result<T, Fail>) -> Result<(), Outcome> {
    match (a, b) {
        (Err(Fail::Fuel), Err(Fail::Fuel)) => Err(Outcome::Inconclusive("fuel")),
        (Err(Fail::Fuel), _) | (_, Err(Fail::Fuel)) => {
            // a step-limit hit on one side only: the other side may simply be cheaper; not judged here (C06 judges termination)
            Err(Outcome::Inconclusive("fuel_one_side"))
        }
        (x, y) if x == y => Ok(()),
        (x, y) => Err(Outcome::Violated(vec![Finding::new(&format!("results_differ_{}", what), format!("optimised: {}", show(x)), format!("unoptimised: {}", show(y)))])),
    }
}

impl Monitor for C08 {
    fn rule(&self) -> &'static str {
        "cases = (pattern, flags subset of {i,m,s}, input); every API (compile, is_match, replace_all with $0 and $N probes, tokenize, analyze, fully drained) is run on Regex::xpath and on Regex::xpath_unoptimized (hook H1) and the complete results, including errors, are compared; patterns are biased to the shapes that trigger each shortcut. Side monitor: minimum length / prefix / initial class of the optimised program vs the matches of the unoptimised one. Non-trivial: the optimised program carries at least one shortcut (prefix, initial class, minimum length > 0, preconditions, start anchor) or an UnambiguousRepeat/GreedyFixed operator, and the input is non-empty."
    }

    fn check(&self, c: &Case, obs: &mut Obs) -> Outcome {
        let a = engine::compile(&c.pattern, &c.flags, c.dialect);
        let b = engine::compile_unopt(&c.pattern, &c.flags, c.dialect);
        let (ra, rb) = match (a, b) {
            (Ok(Ok(ra)), Ok(Ok(rb))) => (ra, rb),
            (Ok(Err(ea)), Ok(Err(eb))) => {
                if ea == eb {
                    return Outcome::Inconclusive("rejected_by_compiler");
                }
                return Outcome::Violated(vec![Finding::new("results_differ_compile", format!("optimised: Err({})", ea.name()), format!("unoptimised: Err({})", eb.name()))]);
            }
            (Err(Fail::Fuel), _) | (_, Err(Fail::Fuel)) => return Outcome::Inconclusive("fuel"),
            (a, b) => {
                let d = |x: &engine::Compiled| match x {
                    Ok(Ok(_)) => "Ok".to_string(),
                    Ok(Err(e)) => format!("Err({})", e.name()),
                    Err(f) => f.describe(),
                };
                return Outcome::Violated(vec![Finding::new("results_differ_compile", format!("optimised: {}", d(&a)), format!("unoptimised: {}", d(&b)))]);
            }
        };
        let (prefix, has_class, minlen, nprec, optflags, nullable_a) = ra.verif_facts();
        let (_, _, _, _, _, nullable_b) = rb.verif_facts();
        if nullable_a != nullable_b {
            return Outcome::Violated(vec![Finding::new("results_differ_matches_empty_string", format!("optimised: {}", nullable_a), format!("unoptimised: {}", nullable_b))]);
        }
        let mut census = std::collections::BTreeMap::new();
        let has_shortcut = prefix.is_some() || has_class || minlen > 0 || nprec > 0 || (optflags & 2) != 0;
        if !obs.quiet {
            if prefix.is_some() {
                obs.count("program_has_prefix");
            }
            if has_class {
                obs.count("program_has_initial_class");
            }
            if minlen > 0 {
                obs.count("program_has_min_length");
            }
            if nprec > 0 {
                obs.count("program_has_preconditions");
            }
            if optflags & 2 != 0 {
                obs.count("program_has_bol_fast_path");
            }
            engine::operator_census(&ra, &mut census);
            for (k, v) in &census {
                obs.add(&format!("op_{}", k), *v);
            }
        }
        let s = &c.input;
        if let Err(o) = same("is_match", &engine::is_match(&ra, s), &engine::is_match(&rb, s)) {
            return o;
        }
        let ng = ast_of(c).map(|a| a.count_groups()).unwrap_or(0).min(12);
        let mut reps = vec!["[$0]".to_string()];
        if ng > 0 {
            reps.push((1..=ng).map(|g| format!("<${}>", g)).collect::<String>());
        }
        if let Some(r) = &c.repl {
            reps.push(r.clone());
        }
        for r in &reps {
            if let Err(o) = same("replace_all", &engine::replace_all(&ra, s, r), &engine::replace_all(&rb, s, r)) {
                return o;
            }
        }
        if let Err(o) = same("tokenize", &engine::tokenize(&ra, s), &engine::tokenize(&rb, s)) {
            return o;
        }
        let an_a = engine::analyze(&ra, s);
        let an_b = engine::analyze(&rb, s);
        if let Err(o) = same("analyze", &an_a, &an_b) {
            return o;
        }
        // invariants of the compile-time facts against the unoptimised engine's matches
        if let Ok(Ok(entries)) = &an_b {
            let ci = c.flags.contains('i');
            for e in entries {
                if let AEntry::Match(_) = e {
                    let t: Vec<char> = e.text().chars().collect();
                    obs.count("fact_invariants_checked");
                    if t.len() < minlen {
                        return Outcome::Violated(vec![Finding::new("fact_minimum_length_too_large", format!("minimum_length = {}", minlen), format!("the unoptimised engine matches {:?} ({} chars)", e.text(), t.len()))]);
                    }
                    if let (Some(p), false) = (&prefix, c.aux.as_deref() == Some("irregular_case")) {
                        // (not for the irregular-case slice: judging "is a prefix of, case-blind" there
                        // would need the very case model this slice does without)
                        let pc: Vec<char> = p.chars().collect();
                        let ok = t.len() >= pc.len() && pc.iter().zip(t.iter()).all(|(x, y)| x == y || (ci && crate::uoracle::eq_ci(*x, *y)));
                        if !ok {
                            return Outcome::Violated(vec![Finding::new("fact_prefix_not_a_prefix", format!("prefix = {:?}", p), format!("the unoptimised engine matches {:?}", e.text()))]);
                        }
                    }
                    if let (Some(first), true) = (t.first(), has_class) {
                        if ra.verif_initial_class_contains(*first) == Some(false) {
                            return Outcome::Violated(vec![Finding::new("fact_initial_class_too_small", format!("initial class does not contain {:?}", first), format!("the unoptimised engine matches {:?}", e.text()))]);
                        }
                    }
                }
            }
        }
        if let Err(o) = api(Ok::<(), Fail>(()), "") {
            return o;
        }
        if c.aux.as_deref() == Some("irregular_case") {
            obs.count("irregular_case_letters_compared");
        }
        let interesting = has_shortcut || census.contains_key("UnambiguousRepeat") || census.contains_key("GreedyFixed");
        if interesting && !s.is_empty() {
            obs.nontrivial(c.key());
        }
        if obs.want_sample() && interesting && s.chars().count() >= 2 {
            obs.sample(c.to_json().with("prefix", prefix.map(|p| J::s(&p)).unwrap_or(J::Null)).with("initial_class", J::Bool(has_class)).with("minimum_length", J::u(minlen as u64)).with("preconditions", J::u(nprec as u64)).with("operators", J::s(&format!("{:?}", census))).with("is_match_both", J::s(&show(&engine::is_match(&ra, s)))));
        }
        let _ = ErrKind::Internal;
        Outcome::Held
    }

    fn workload(&self, w: &Work, emit: &mut dyn FnMut(Case)) -> J {
        let n = w.share(100_000, 4_000_000);
        let mut rng = w.rng("C08", 1);
        let cfg = GenCfg::std(STD_ALPHA);
        let mut cfg2 = GenCfg::std(&['a', 'b', 'A', '\n', 'a', 'b']);
        cfg2.props = false;
        for k in 0..n {
            let ast = match k % 4 {
                0 | 1 => gen_shortcut(&mut rng, &cfg),
                2 => gen_shortcut(&mut rng, &cfg2),
                // back-references make the way a span was matched (which alternative set which group)
                // observable, which is what the non-backtracking operators must preserve
                _ if k % 16 == 3 => super::refprops::gen_backref_shape(&mut rng),
                _ if k % 16 == 7 => gen_anchor_giveback(&mut rng),
                _ => gen_pattern(&mut rng, &cfg),
            };
            let fl = FLAG_SUBSETS[rng.below(FLAG_SUBSETS.len())];
            for _ in 0..3 {
                let inp = gen_input(&mut rng, &ast, STD_EXTRA, 8);
                emit(Case::new(&ast, fl, &inp));
            }
        }
        // letters with irregular case relations under flag i (three-way folds, one-to-many
        // mappings): no reference model covers them, but this monitor needs none - the shortcuts
        // (prefix scan, initial class, first-set disjointness) must agree with the plain matcher
        let ni = w.share(30_000, 1_000_000);
        let irregular = super::refprops::IRREGULAR_CASE;
        let mut cfg3 = GenCfg::std(irregular);
        cfg3.props = false;
        for k in 0..ni {
            let ast = match k % 3 {
                0 => {
                    let w = 1 + rng.below(3);
                    let mut v: Vec<Node> = (0..w).map(|_| Node::Char(*rng.pick(irregular))).collect();
                    if rng.chance(1, 2) {
                        v.push(gen_pattern(&mut rng, &cfg3));
                    }
                    Node::Cat(v).normalize()
                }
                1 => gen_shortcut(&mut rng, &cfg3),
                _ => gen_pattern(&mut rng, &cfg3),
            };
            if !ast.valid_backrefs() {
                continue;
            }
            let fl = *rng.pick(&["i", "i", "is", "im"]);
            for _ in 0..2 {
                let inp: String = gen_input(&mut rng, &ast, irregular, 8).chars().map(|ch| if rng.chance(1, 3) { *rng.pick(irregular) } else { ch }).collect();
                let mut c = Case::new(&ast, fl, &inp);
                c.aux = Some("irregular_case".to_string());
                emit(c);
            }
        }
        J::obj().with("random_patterns_this_shard", J::u(n))
    }

    fn corpus(&self) -> Vec<Case> {
        [("a*^a", "", "aa"), ("\\n*$\\nb", "m", "\n\nb"), ("\\d*1", "i", "1"), ("\\s*\\n", "i", "\n"), ("()^a", "m", "\na"), ("b*^a", "m", "\na"), ("^(?:b|c)a{3}", "", "baaa"), ("abc+d", "", "xabccd"), ("[ab]c{2}", "", "bcc"), ("^a", "m", "b\na")].iter().map(|(p, f, s)| Case::raw(p, f, s)).collect()
    }
}
