// C18 — a compiled Regex is a pure, reusable, thread-safe value.
// A case is one history (seeded): a pool of Regex objects and a sequence of API calls, incl.
// interleaved, partially consumed tokenize/analyze iterators. It is executed
//   (1) op by op on freshly compiled objects (the expected results, recorded first),
//   (2) on shared objects in a shuffled order in one thread,
//   (3) from 2-8 threads sharing the objects, released by a barrier.
// Every call's result must equal the fresh-object result. Calls and returns are stamped from one
// atomic counter so that the number of truly overlapping call pairs can be reported.
use super::*;
use crate::engine::{self, AEntry, ErrKind, Fail};
use crate::gen::*;
use regexml::Regex;
use std::sync::atomic::{AtomicU64, Ordering};
use std::sync::Barrier;

pub struct C18;

/// patterns that touch every piece of per-matcher / process-wide state
pub const POOL: &[(&str, &str)] = &[
    ("(a+)(b)?", ""),
    ("(a|ab)(c|bcd)", ""),
    ("([ab])\\1", "i"),
    ("(?:a?)*b", ""),
    ("(?:a|)*?c", ""),
    ("(a*)*b", ""),
    ("^a|b$", "m"),
    ("^\\s*(\\w+)", "m"),
    ("\\p{IsGreek}+|\\p{IsBasicLatin}", ""),
    ("\\p{IsCyrillic}|[\\p{IsLatin-1Supplement}-[\\p{Lu}]]", ""),
    ("[a-c]+?c", ""),
    ("a.c", "s"),
    ("(x)|(y)|(z)", ""),
    ("\\d{2,3}", ""),
    ("ab", "q"),
    ("(?:(a)|b)+\\1?", ""),
    // letters whose code points differ by 0x10000 / share low bits (Cyrillic U+0400.. vs Deseret
    // U+10400..): per-thread or per-process caches keyed by truncated values would mix them up
    ("\u{10400}+", "i"),
    ("ш\u{10428}?", "i"),
    ("[Ѐ-ш]+", "i"),
    ("a", "i"),
    // patterns that match the empty string: replace_all / tokenize / analyze must keep answering
    // MatchesEmptyString whatever was called on the object before
    ("^a*$", ""),
    ("^$", "m"),
    ("^\\s*$", ""),
    ("(ab)*", "i"),
    ("a?", ""),
];

pub const INPUTS: &[&str] = &["aaa", "b", "  ", "Ш\u{10428}", "\u{10400}ѐ", "Ѐш\u{10428}\u{10400}", "A\u{10041}", "\u{10041}a", "", "a", "ab", "aab", "abcd", "aabbcc", "a\nb", "  word\nb", "αβγ a", "дaÀ", "xyz", "123 4567", "abab", "aAbB", "aac", "a\nc", "caab", "bbb"];

#[derive(Clone, Debug, PartialEq)]
enum Res {
    Bool(bool),
    Str(Result<String, ErrKind>),
    Tokens(Result<Vec<String>, ErrKind>),
    Entries(Result<Vec<AEntry>, ErrKind>),
    Abnormal(String),
}

#[derive(Clone, Debug)]
enum Kind {
    IsMatch,
    Replace(&'static str),
    Tokenize { take: usize },
    Analyze { take: usize },
    Recompile,
}

#[derive(Clone, Debug)]
struct Op {
    re: usize,
    kind: Kind,
    input: &'static str,
}

fn run_op(re: &Regex, op: &Op) -> Res {
    let ab = |f: Fail| Res::Abnormal(f.describe());
    match &op.kind {
        Kind::IsMatch | Kind::Recompile => match engine::is_match(re, op.input) {
            Ok(b) => Res::Bool(b),
            Err(f) => ab(f),
        },
        Kind::Replace(r) => match engine::replace_all(re, op.input, r) {
            Ok(x) => Res::Str(x),
            Err(f) => ab(f),
        },
        Kind::Tokenize { .. } => match engine::tokenize(re, op.input) {
            Ok(x) => Res::Tokens(x),
            Err(f) => ab(f),
        },
        Kind::Analyze { .. } => match engine::analyze(re, op.input) {
            Ok(x) => Res::Entries(x),
            Err(f) => ab(f),
        },
    }
}

fn gen_history(seed: u64, nops: usize) -> (Vec<usize>, Vec<Op>) {
    let mut rng = Rng::derive(seed, &[18]);
    let npool = 4 + rng.below(5);
    let mut pool = vec![];
    for _ in 0..npool {
        pool.push(rng.below(POOL.len()));
    }
    let mut ops = vec![];
    for _ in 0..nops {
        let re = rng.below(npool);
        let input = *rng.pick(INPUTS);
        let kind = match rng.below(10) {
            0 | 1 | 2 => Kind::IsMatch,
            3 | 4 => Kind::Replace(*rng.pick(&["[$0]", "<$1>", "x", "$2$1", "x$", "a\\", "$1\\"])),
            5 | 6 => Kind::Tokenize { take: rng.below(4) },
            7 | 8 => Kind::Analyze { take: rng.below(4) },
            _ => Kind::Recompile,
        };
        ops.push(Op { re, kind, input });
    }
    (pool, ops)
}

struct Shared<'a>(&'a [Regex]);
// The compile-time clause (Regex: Send + Sync) is decided by the separate probe crate; this wrapper
// only keeps the harness compiling for the other properties if that clause is ever broken, so that
// the run-time monitors (and the race detectors) can still observe what happens.
unsafe impl Sync for Shared<'_> {}
unsafe impl Send for Shared<'_> {}

static CLOCK: AtomicU64 = AtomicU64::new(0);

fn compile(idx: usize) -> Result<Regex, String> {
    let (p, f) = POOL[idx];
    match engine::compile(p, f, engine::Dialect::XPath) {
        Ok(Ok(r)) => Ok(r),
        Ok(Err(e)) => Err(format!("pool pattern {:?} rejected: {}", p, e.name())),
        Err(f) => Err(format!("pool pattern {:?}: {}", p, f.describe())),
    }
}

fn describe(op: &Op, pool: &[usize]) -> String {
    format!("{:?} on regex {:?} flags {:?} input {:?}", op.kind, POOL[pool[op.re]].0, POOL[pool[op.re]].1, op.input)
}

impl Monitor for C18 {
    fn rule(&self) -> &'static str {
        "a case = one seeded history over a pool of 4-8 Regex objects (patterns chosen to touch groups, back-references, min-0 variable repeats that use the zero-length-match memo, anchors, \\p{Is..} blocks that use the process-wide lazy table): ~60 operations = is_match, replace_all, tokenize and analyze iterators that are opened, stepped a few times, kept alive across later calls and then drained, and drop + recompile. Each history runs (1) op by op on freshly compiled objects - the expected results -, (2) on shared objects in a shuffled order with all iterators interleaved, (3) from 2-8 threads sharing the objects, released by a barrier; the first history of every worker process races the initialisation of the block table from 8 threads and runs the first-use-order probe (three child processes whose first block escape is none / XPath / XSD evaluate every block name in both dialects - compile outcome and membership of the block's first and last character - and must agree). Every result must equal the fresh-object result; call/return stamps from one atomic counter give the number of overlapping call pairs. Non-trivial: every history (distinct by seed); a run without overlapping calls is inconclusive."
    }
    fn check(&self, c: &Case, obs: &mut Obs) -> Outcome {
        let aux = c.aux.clone().unwrap_or_default();
        let mut it = aux.split(':');
        let seed: u64 = it.next().and_then(|x| x.parse().ok()).unwrap_or(0);
        let nthreads: usize = it.next().and_then(|x| x.parse().ok()).unwrap_or(4);
        let nops: usize = it.next().and_then(|x| x.parse().ok()).unwrap_or(60);
        let race_init = it.next() == Some("init");
        if race_init {
            // first-use order of the process-wide block table: the same battery (every block name
            // of the repository's data files, both dialects: compile outcome + membership of the
            // block's first and last character) is evaluated in three child processes whose first
            // use of a block escape differs (none / an XPath regex / an XSD regex). The answers
            // must not depend on which dialect initialised the table. Children are separate
            // processes because a OnceLock cannot be reset inside one.
            match primer_outputs() {
                Some(outs) => {
                    obs.count("first_use_order_probes");
                    for k in 1..outs.len() {
                        if outs[k].1 != outs[0].1 {
                            let names = primer_labels();
                            let a: Vec<char> = outs[0].1.chars().collect();
                            let b: Vec<char> = outs[k].1.chars().collect();
                            let i = (0..a.len().min(b.len())).find(|&i| a[i] != b[i]).unwrap_or(a.len().min(b.len()));
                            let what = names.get(i).cloned().unwrap_or_else(|| "length".to_string());
                            return Outcome::Violated(vec![Finding::new(
                                "block_table_depends_on_first_use",
                                format!("{}: outcome {:?} in a process primed with '{}'", what, b.get(i), outs[k].0),
                                format!("outcome {:?} as in a process primed with '{}'", a.get(i), outs[0].0),
                            )]);
                        }
                    }
                }
                None => obs.count("first_use_order_probe_unavailable"),
            }
            // the very first use of a block name in this process, from 8 threads at once
            let barrier = Barrier::new(8);
            let results: Vec<Result<Vec<bool>, String>> = std::thread::scope(|s| {
                let hs: Vec<_> = (0..8)
                    .map(|t| {
                        let b = &barrier;
                        s.spawn(move || {
                            b.wait();
                            let names = ["IsGreek", "IsBasicLatin", "IsCyrillic", "IsLatin-1Supplement"];
                            let mut out = vec![];
                            for k in 0..4 {
                                let n = names[(t + k) % 4];
                                match engine::compile(&format!("^\\p{{{}}}$", n), "", engine::Dialect::XPath) {
                                    Ok(Ok(r)) => {
                                        for probe in ["α", "a", "д", "é"] {
                                            out.push(engine::is_match(&r, probe).unwrap_or(false));
                                        }
                                    }
                                    other => return Err(format!("{:?}", other.map(|x| x.map(|_| ())))),
                                }
                            }
                            // normalise the order (names rotate per thread)
                            let mut norm = vec![false; 16];
                            for k in 0..4 {
                                let slot = (t + k) % 4;
                                for j in 0..4 {
                                    norm[slot * 4 + j] = out[k * 4 + j];
                                }
                            }
                            Ok(norm)
                        })
                    })
                    .collect();
                hs.into_iter().map(|h| h.join().unwrap_or_else(|_| Err("thread panicked".to_string()))).collect()
            });
            let expect: Vec<bool> = vec![true, false, false, false, false, true, false, false, false, false, true, false, false, false, false, true];
            for (t, r) in results.iter().enumerate() {
                match r {
                    Ok(v) if *v == expect => {}
                    other => return Outcome::Violated(vec![Finding::new("block_table_init_race", format!("thread {}: {:?}", t, other), format!("{:?}", expect))]),
                }
            }
            obs.count("block_table_init_races");
        }
        // cross-object probes: objects for the same pattern text that differ only in dialect or in
        // flags must not influence each other, whatever the order in which they are compiled. The
        // pattern text is unique per history, so nothing compiled earlier in this process has seen it.
        {
            let mut r = Rng::derive(seed, &[7]);
            let u: String = (0..6).map(|_| (b'a' + r.below(26) as u8) as char).collect();
            let up = u.to_uppercase();
            let p_anchor = format!("^{}", u);
            let lit_in = format!("x^{}", u);
            let first_xpath = r.chance(1, 2);
            let comp = |d: engine::Dialect, p: &str, f: &str| -> Result<Regex, String> {
                match engine::compile(p, f, d) {
                    Ok(Ok(r)) => Ok(r),
                    other => Err(format!("{:?}", other.map(|x| x.map(|_| ())))),
                }
            };
            let order = if first_xpath { [engine::Dialect::XPath, engine::Dialect::Xsd] } else { [engine::Dialect::Xsd, engine::Dialect::XPath] };
            let mut objs = vec![];
            for d in order {
                match comp(d, &p_anchor, "") {
                    Ok(r) => objs.push((d, r)),
                    Err(e) => return Outcome::Violated(vec![Finding::new("pool_pattern_failed", e, "compiles")]),
                }
            }
            for (d, re) in &objs {
                let anchored = engine::is_match(re, &u).unwrap_or(false);
                let literal = engine::is_match(re, &lit_in).unwrap_or(false);
                let want = if *d == engine::Dialect::XPath { (true, false) } else { (false, true) };
                if (anchored, literal) != want {
                    return Outcome::Violated(vec![Finding::new(
                        "result_depends_on_other_objects",
                        format!("{:?} object for {:?} (compiled {}): is_match({:?})={}, is_match({:?})={}", d, p_anchor, if (*d == engine::Dialect::XPath) == first_xpath { "first" } else { "after the other dialect's object for the same text" }, u, anchored, lit_in, literal),
                        format!("{:?}", want),
                    )]);
                }
            }
            // same text, different flags
            let flag_order: [&str; 2] = if r.chance(1, 2) { ["", "i"] } else { ["i", ""] };
            for f in flag_order {
                match comp(engine::Dialect::XPath, &u, f) {
                    Ok(re) => {
                        let got = engine::is_match(&re, &up).unwrap_or(false);
                        if got != (f == "i") {
                            return Outcome::Violated(vec![Finding::new("result_depends_on_other_objects", format!("pattern {:?} flags {:?}: is_match({:?}) = {}", u, f, up, got), format!("{}", f == "i"))]);
                        }
                    }
                    Err(e) => return Outcome::Violated(vec![Finding::new("pool_pattern_failed", e, "compiles")]),
                }
            }
            obs.count("cross_object_probes");
        }
        let (pool_idx, ops) = gen_history(seed, nops);
        // (1) expected results: every op on a freshly compiled object, single-threaded
        let mut expected = vec![];
        for op in &ops {
            let re = match compile(pool_idx[op.re]) {
                Ok(r) => r,
                Err(e) => return Outcome::Violated(vec![Finding::new("pool_pattern_failed", e, "the pool patterns compile")]),
            };
            expected.push(run_op(&re, op));
        }
        // the fresh-object results must themselves not depend on what this thread or process did
        // before: for is_match calls on pool patterns outside the known-defect regions the reference
        // model gives a second, history-free opinion
        for (op, exp) in ops.iter().zip(expected.iter()) {
            if cfg!(miri) {
                // the interpreter is ~1000x slower; the reference model and its tables over all
                // scalar values are exercised on the ordinary build
                break;
            }
            if let (Kind::IsMatch, Res::Bool(got)) = (&op.kind, exp) {
                let (p, f) = POOL[pool_idx[op.re]];
                if f.contains('q') {
                    continue;
                }
                if let crate::grammar::Parsed::Valid(ast) = crate::grammar::parse(p, false, false) {
                    if ast.has_looping_nullable() || ast.has_min0_variable_greedy_repeat() || ast.has_group_in_loop() {
                        continue;
                    }
                    let input: Vec<char> = op.input.chars().collect();
                    if f.contains('i') && input.iter().any(|x| !crate::uoracle::case_regular(*x)) {
                        continue;
                    }
                    if let Ok(want) = super::c01::expected_is_match(&ast, crate::refmodel::Flags::parse(f), &input) {
                        obs.count("fresh_results_cross_checked_with_reference");
                        if want != *got {
                            return Outcome::Violated(vec![Finding::new("fresh_object_result_differs_from_reference", format!("{}", got), format!("{} ({})", want, describe(op, &pool_idx)))]);
                        }
                    }
                }
            }
        }
        // re-running gives the same answer (fresh object again)
        for (op, exp) in ops.iter().zip(expected.iter()).step_by(7) {
            let re = compile(pool_idx[op.re]).unwrap();
            let again = run_op(&re, op);
            if again != *exp {
                return Outcome::Violated(vec![Finding::new("fresh_objects_disagree", format!("{:?}", again), format!("{:?} ({})", exp, describe(op, &pool_idx)))]);
            }
        }
        if expected.iter().any(|e| matches!(e, Res::Abnormal(_))) {
            // panics / step limits are C05 / C06 business; a history containing one is not judged here
            return Outcome::Inconclusive("abnormal_result_in_history");
        }
        // shared pool
        let pool: Vec<Regex> = match pool_idx.iter().map(|i| compile(*i)).collect::<Result<Vec<_>, _>>() {
            Ok(p) => p,
            Err(e) => return Outcome::Violated(vec![Finding::new("pool_pattern_failed", e, "the pool patterns compile")]),
        };
        // (2) shuffled order, iterators interleaved and partially consumed
        let mut rng = Rng::derive(seed, &[99]);
        let mut order: Vec<usize> = (0..ops.len()).collect();
        for i in (1..order.len()).rev() {
            order.swap(i, rng.below(i + 1));
        }
        {
            // open iterators (index into ops, the iterator, items so far)
            let mut toks: Vec<(usize, Box<dyn Iterator<Item = String> + '_>, Vec<String>)> = vec![];
            let mut ans: Vec<(usize, Box<dyn Iterator<Item = AEntry> + '_>, Vec<AEntry>)> = vec![];
            let conv = |e: regexml::AnalyzeEntry| -> AEntry {
                // reuse the engine boundary's normalisation through a one-entry round trip
                match e {
                    regexml::AnalyzeEntry::NonMatch(s) => AEntry::NonMatch(s),
                    regexml::AnalyzeEntry::Match(m) => {
                        fn cm(m: &regexml::MatchEntry) -> engine::MEntry {
                            match m {
                                regexml::MatchEntry::String(s) => engine::MEntry::Str(s.clone()),
                                regexml::MatchEntry::Group { nr, value } => engine::MEntry::Group(*nr, value.iter().map(cm).collect()),
                            }
                        }
                        AEntry::Match(m.iter().map(cm).collect())
                    }
                }
            };
            for &oi in &order {
                let op = &ops[oi];
                let re = &pool[op.re];
                match &op.kind {
                    Kind::Tokenize { take } => match engine::guarded(|| re.tokenize(op.input)) {
                        Ok(Ok(it)) => {
                            let mut it: Box<dyn Iterator<Item = String> + '_> = Box::new(it);
                            let mut got = vec![];
                            for _ in 0..*take {
                                if let Some(x) = it.next() {
                                    got.push(x)
                                }
                            }
                            toks.push((oi, it, got));
                        }
                        Ok(Err(e)) => {
                            if Res::Tokens(Err(ErrKind::of(&e))) != expected[oi] {
                                return Outcome::Violated(vec![Finding::new("shared_object_result_differs", format!("Err({:?})", e), format!("{:?} ({})", expected[oi], describe(op, &pool_idx)))]);
                            }
                        }
                        Err(f) => return Outcome::Violated(vec![Finding::new("shared_object_result_differs", f.describe(), format!("{:?}", expected[oi]))]),
                    },
                    Kind::Analyze { take } => match engine::guarded(|| re.analyze(op.input)) {
                        Ok(Ok(it)) => {
                            let mut it: Box<dyn Iterator<Item = AEntry> + '_> = Box::new(it.map(conv));
                            let mut got = vec![];
                            for _ in 0..*take {
                                if let Some(x) = it.next() {
                                    got.push(x)
                                }
                            }
                            ans.push((oi, it, got));
                        }
                        Ok(Err(e)) => {
                            if Res::Entries(Err(ErrKind::of(&e))) != expected[oi] {
                                return Outcome::Violated(vec![Finding::new("shared_object_result_differs", format!("Err({:?})", e), format!("{:?} ({})", expected[oi], describe(op, &pool_idx)))]);
                            }
                        }
                        Err(f) => return Outcome::Violated(vec![Finding::new("shared_object_result_differs", f.describe(), format!("{:?}", expected[oi]))]),
                    },
                    _ => {
                        let got = run_op(re, op);
                        if got != expected[oi] {
                            return Outcome::Violated(vec![Finding::new("shared_object_result_differs", format!("{:?}", got), format!("{:?} ({})", expected[oi], describe(op, &pool_idx)))]);
                        }
                    }
                }
                // step one of the live iterators a little (interleaving)
                if !toks.is_empty() && rng.chance(1, 2) {
                    let k = rng.below(toks.len());
                    if let Some(x) = toks[k].1.next() {
                        toks[k].2.push(x)
                    }
                }
                if !ans.is_empty() && rng.chance(1, 2) {
                    let k = rng.below(ans.len());
                    if let Some(x) = ans[k].1.next() {
                        ans[k].2.push(x)
                    }
                }
                // retire one live iterator at random - often an older one while younger ones stay
                // alive and further calls follow (lifetimes that are not nested)
                if toks.len() + ans.len() >= 2 && rng.chance(1, 3) {
                    if !toks.is_empty() && (ans.is_empty() || rng.chance(1, 2)) {
                        let k = rng.below(toks.len());
                        let (oi2, it, mut got) = toks.remove(k);
                        got.extend(it);
                        if Res::Tokens(Ok(got.clone())) != expected[oi2] {
                            return Outcome::Violated(vec![Finding::new("interleaved_iterator_result_differs", format!("{:?}", got), format!("{:?} ({})", expected[oi2], describe(&ops[oi2], &pool_idx)))]);
                        }
                    } else if !ans.is_empty() {
                        let k = rng.below(ans.len());
                        let (oi2, it, mut got) = ans.remove(k);
                        got.extend(it);
                        if Res::Entries(Ok(got.clone())) != expected[oi2] {
                            return Outcome::Violated(vec![Finding::new("interleaved_iterator_result_differs", format!("{:?}", got), format!("{:?} ({})", expected[oi2], describe(&ops[oi2], &pool_idx)))]);
                        }
                    }
                    obs.count("iterators_retired_out_of_order");
                }
            }
            obs.add("iterators_kept_alive_across_calls", (toks.len() + ans.len()) as u64);
            // drain everything that is still alive, in reverse order of opening
            while let Some((oi, it, mut got)) = toks.pop() {
                got.extend(it);
                if Res::Tokens(Ok(got.clone())) != expected[oi] {
                    return Outcome::Violated(vec![Finding::new("interleaved_iterator_result_differs", format!("{:?}", got), format!("{:?} ({})", expected[oi], describe(&ops[oi], &pool_idx)))]);
                }
            }
            while let Some((oi, it, mut got)) = ans.pop() {
                got.extend(it);
                if Res::Entries(Ok(got.clone())) != expected[oi] {
                    return Outcome::Violated(vec![Finding::new("interleaved_iterator_result_differs", format!("{:?}", got), format!("{:?} ({})", expected[oi], describe(&ops[oi], &pool_idx)))]);
                }
            }
        }
        // (3) threads sharing the objects
        let shared = Shared(&pool);
        let barrier = Barrier::new(nthreads);
        let ops_ref = &ops;
        let exp_ref = &expected;
        let pool_ref = &pool_idx;
        type Stamp = (u64, u64, usize);
        let results: Vec<Result<Vec<Stamp>, Finding>> = std::thread::scope(|s| {
            let hs: Vec<_> = (0..nthreads)
                .map(|t| {
                    let sh = &shared;
                    let b = &barrier;
                    s.spawn(move || {
                        b.wait();
                        let mut stamps = vec![];
                        let mut own: Option<(usize, Regex)> = None;
                        for (oi, op) in ops_ref.iter().enumerate() {
                            // every thread runs a rotating two thirds of the history, so that the
                            // same call is issued from several threads at about the same time
                            if (oi + t) % 3 == 2 {
                                continue;
                            }
                            if let Kind::Recompile = op.kind {
                                // drop + recompile: a second object for the same pattern, used by this thread
                                match compile(pool_ref[op.re]) {
                                    Ok(r) => own = Some((op.re, r)),
                                    Err(e) => return Err(Finding::new("pool_pattern_failed", e, "the pool patterns compile")),
                                }
                            }
                            let re: &Regex = match &own {
                                Some((idx, r)) if *idx == op.re => r,
                                _ => &sh.0[op.re],
                            };
                            let t0 = CLOCK.fetch_add(1, Ordering::SeqCst);
                            let got = run_op(re, op);
                            let t1 = CLOCK.fetch_add(1, Ordering::SeqCst);
                            stamps.push((t0, t1, t));
                            if got != exp_ref[oi] {
                                return Err(Finding::new("concurrent_result_differs", format!("thread {}: {:?}", t, got), format!("{:?} ({})", exp_ref[oi], describe(op, pool_ref))));
                            }
                        }
                        Ok(stamps)
                    })
                })
                .collect();
            hs.into_iter().map(|h| h.join().unwrap_or_else(|_| Err(Finding::new("panic_in_thread", "a worker thread panicked outside the guarded calls", "no panic")))).collect()
        });
        let mut all: Vec<Stamp> = vec![];
        for r in results {
            match r {
                Ok(s) => all.extend(s),
                Err(f) => return Outcome::Violated(vec![f]),
            }
        }
        // overlapping pairs from different threads
        all.sort();
        let mut overlap = 0u64;
        for i in 0..all.len() {
            for j in i + 1..all.len() {
                if all[j].0 > all[i].1 {
                    break;
                }
                if all[j].2 != all[i].2 {
                    overlap += 1;
                }
            }
        }
        obs.add("calls_in_threads", all.len() as u64);
        obs.add("overlapping_call_pairs", overlap);
        obs.add("ops_in_histories", ops.len() as u64);
        obs.max("threads", nthreads as u64);
        obs.nontrivial(c.key());
        if obs.want_sample() {
            obs.sample(c.to_json().with("pool", J::Arr(pool_idx.iter().map(|i| J::s(POOL[*i].0)).collect())).with("first_ops", J::Arr(ops.iter().take(5).map(|o| J::s(&describe(o, &pool_idx))).collect())).with("overlapping_call_pairs", J::u(overlap)));
        }
        Outcome::Held
    }
    fn workload(&self, w: &Work, emit: &mut dyn FnMut(Case)) -> J {
        let n = w.share(4_000, 80_000);
        let mut rng = w.rng("C18", 1);
        for k in 0..n {
            let mut c = Case::raw("", "", "");
            let threads = 2 + rng.below(7);
            c.aux = Some(format!("{}:{}:{}{}", rng.next() % 1_000_000_007, threads, 40 + rng.below(40), if k == 0 { ":init" } else { "" }));
            emit(c);
        }
        J::obj().with("histories_this_shard", J::u(n))
    }
}


const PRIMERS: [&str; 3] = ["none", "xpath", "xsd"];

fn primer_battery() -> Vec<(String, engine::Dialect, char, char)> {
    let mut v = vec![];
    for b in crate::uoracle::repo_blocks() {
        let first = char::from_u32(b.start).unwrap_or('a');
        let last = char::from_u32(b.end).unwrap_or('a');
        for d in [engine::Dialect::XPath, engine::Dialect::Xsd] {
            v.push((b.lookup.clone(), d, first, last));
        }
    }
    v
}

fn primer_labels() -> Vec<String> {
    let mut v = vec![];
    for (n, d, _, _) in primer_battery() {
        for part in ["compile", "first character", "last character"] {
            v.push(format!("\\p{{Is{}}} {:?} {}", n, d, part));
        }
    }
    v
}

/// `rxv primer <none|xpath|xsd>`: one line of outcome characters for the battery, evaluated after
/// the named first use of a block escape in this (fresh) process.
pub fn primer_main(mode: &str) -> i32 {
    match mode {
        "xpath" => {
            let _ = engine::compile("\\p{IsGreek}", "", engine::Dialect::XPath);
        }
        "xsd" => {
            let _ = engine::compile("\\p{IsGreek}", "", engine::Dialect::Xsd);
        }
        _ => {}
    }
    let mut out = String::new();
    for (n, d, first, last) in primer_battery() {
        match engine::compile(&format!("\\p{{Is{}}}", n), "", d) {
            Ok(Ok(r)) => {
                out.push('1');
                for c in [first, last] {
                    out.push(match engine::is_match(&r, &c.to_string()) {
                        Ok(true) => 't',
                        Ok(false) => 'f',
                        Err(_) => 'P',
                    });
                }
            }
            Ok(Err(_)) => out.push_str("0--"),
            Err(_) => out.push_str("P--"),
        }
    }
    println!("{}", out);
    0
}

fn primer_outputs() -> Option<Vec<(&'static str, String)>> {
    if cfg!(miri) {
        // the interpreter cannot start processes; the probe runs in the native tiers
        return None;
    }
    let exe = std::env::current_exe().ok()?;
    let mut outs = vec![];
    for m in PRIMERS {
        let o = std::process::Command::new(&exe).arg("primer").arg(m).output().ok()?;
        if !o.status.success() {
            return None;
        }
        let s = String::from_utf8_lossy(&o.stdout).trim().to_string();
        if s.is_empty() {
            return None;
        }
        outs.push((m, s));
    }
    Some(outs)
}
