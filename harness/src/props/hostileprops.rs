// C05 (no panic / abort / Error::Internal), C06 (termination, finite iterators), C07 (grammar acceptance).
use super::*;
use crate::engine::{self, Dialect, ErrKind, Fail};
use crate::gen::*;
use crate::grammar::{self, Parsed};

fn raw(v: &[(&str, &str, &str)]) -> Vec<Case> {
    v.iter().map(|(p, f, s)| Case::raw(p, f, s)).collect()
}

pub const REPLS: &[&str] = &["", "x", "$0", "$1", "$2$1", "$10", "\\$", "\\\\", "$", "\\", "a$", "$a", "\\a", "$99", "\u{10400}$0\u{10400}"];

/// hostile pattern strings: valid, mutated, garbage, extreme bounds, nesting
pub fn gen_hostile(rng: &mut Rng, max_nest: usize) -> (String, Option<Node>) {
    // metacharacters as literals (rendered escaped, also inside classes): the helpers that re-scan
    // the pattern text (nesting table, flag x stripper) must cope with them
    let cfg = GenCfg::std(&['a', 'b', 'A', 'B', '1', ' ', '\n', 'a', 'b', '\u{10400}', '[', ']', '(', ')', '\\', '{', '-', '^', '$', '|']);
    match rng.below(13) {
        0 | 1 => {
            let a = gen_pattern(rng, &cfg);
            (a.render(), Some(a))
        }
        12 => {
            // capture-state shapes: alternatives made of directly quantified groups and literals, so
            // that failed attempts at earlier start positions leave capture state behind
            let letters = ['a', 'b', 'c', 'd'];
            let nb = 2 + rng.below(2);
            let mut branches = vec![];
            for _ in 0..nb {
                let mut v = vec![];
                for _ in 0..1 + rng.below(2) {
                    let g = Node::Group(Box::new(Node::Char(*rng.pick(&letters))));
                    let (min, max) = *rng.pick(&[(0, Some(1)), (1, Some(2)), (0, None), (1, None), (1, Some(1))]);
                    v.push(if (min, max) == (1, Some(1)) { g } else { Node::Repeat { body: Box::new(g), min, max, greedy: !rng.chance(1, 4), spell: 0 } });
                }
                v.push(Node::Char(*rng.pick(&letters)));
                branches.push(Node::Cat(v));
            }
            let a = Node::Alt(branches);
            (a.render(), Some(a))
        }
        2 | 3 | 4 => {
            let a = gen_pattern(rng, &cfg);
            (mutate(rng, &a.render()), None)
        }
        5 | 6 => (gen_garbage(rng, 12), None),
        7 => {
            // extreme quantifier bounds, also nested so that products overflow
            let b1 = extreme_bound(rng);
            let b2 = extreme_bound(rng);
            let body = *rng.pick(&["a", "(?:ab)", "(a)", ".", "[ab]", "(?:a|bc)", "(?:a?)", "$", "\\1"]);
            let q = match rng.below(5) {
                0 => format!("{{{}}}", b1),
                1 => format!("{{{},}}", b1),
                2 => format!("{{{},{}}}", b1, b2),
                3 => format!("{{0,{}}}", b1),
                _ => format!("{{{}}}?", b1),
            };
            let inner = format!("{}{}", body, q);
            let p = match rng.below(4) {
                0 => inner,
                1 => format!("(?:{}){{{}}}", inner, b2),
                2 => format!("({}){{{},}}x", inner, b2),
                _ => format!("^{}b{}$", inner, q),
            };
            (if body == "\\1" { format!("(a){}", p) } else { p }, None)
        }
        8 => {
            // nesting at a moderate fixed depth
            let d = 1 + rng.below(max_nest);
            let (open, close) = *rng.pick(&[("(", ")"), ("(?:", ")"), ("(?:", ")*"), ("(", ")?"), ("(?:a|", ")"), ("[a-[", "]]")]);
            let mut p = String::new();
            for _ in 0..d {
                p.push_str(open);
            }
            p.push_str(if open.starts_with('[') { "b" } else { "a" });
            for _ in 0..d {
                p.push_str(close);
            }
            (p, None)
        }
        9 => {
            // quantifiers on nullable / zero-width / failing bodies, back-references to empty captures
            let body = *rng.pick(&["(?:)", "()", "^", "$", "(?:^|$)", "(?:a|)", "(?:a*)", "(a*)", "(?:a?b?)", "(^a)", "(?:$^)", "()\\1", "(a|)\\1", "(?:a|bb)", "\\b"]);
            let q = *rng.pick(&["*", "+", "?", "*?", "+?", "??", "{2}", "{2,}", "{0,2}?", "{2,}?", "{0}", "{0,0}", "{3,5}"]);
            let tail = *rng.pick(&["", "a", "c", "$", "\\1", "b*"]);
            let p = format!("{}{}{}", body, q, tail);
            (if p.contains("\\1") && !p.contains('(') { format!("(a){}", p) } else { p }, None)
        }
        10 => {
            // class corner cases
            let p = *rng.pick(&["[", "[]", "[^]", "[a-]", "[-a]", "[a--]", "[--a]", "[a-b-c]", "[a-[", "[a-[b", "[a-[b]", "[a-[b]]", "[a-[b]]]", "[^-[a]]", "[\\", "[\\p", "[\\p{", "[\\p{L", "[\\p{L}", "[a\\", "[z-a]", "[\\d-z]", "[a-\\d]", "[[a]]", "[a]]", "[\\1]", "[^^]", "[a-a]", "[\u{10FFFF}-\u{10FFFF}]", "[\u{0}-\u{10FFFF}]", "[^\u{0}-\u{10FFFF}]", "[\\P{L}-[\\P{Lu}]]"]);
            (p.to_string(), None)
        }
        _ => {
            // escapes and group syntax corner cases
            let p = *rng.pick(&["\\", "a\\", "\\p", "\\p{", "\\p{}", "\\p{L", "\\p{Is}", "\\p{IsX}", "\\P{IsBasicLatin", "\\0", "\\9", "\\10", "(\\1)", "(a)\\2", "(a\\1)", "(?", "(?:", "(?a)", "(?=a)", "(?!a)", "(?<a>b)", "(*)", "a{", "a{1", "a{1,", "a{,1}", "a{1,2", "a{2,1}", "a{1}{2}", "a**", "a+*", "a?{2}", "{1}", "*", "+a", "|*", "a|*", "()*", "(|)+", "a{1}?", "a{ 1}", "^*", "$+", "^{2}", "$?*", "\\n*+", "a{18446744073709551616}", "a{0}{0}", "\\p{Lu}{2}", "\\$", "\\^", "\\-", "\\a", "\\e", "\\x41", "\\u0041", "\\Q", "\\b", "\\B", "\\A", "\\z", "\\G", "\\k<a>", "\\cA", "\\I\\C\\D\\W\\S"]);
            (p.to_string(), None)
        }
    }
}

pub fn hostile_input(rng: &mut Rng, p: &str) -> String {
    let pc: Vec<char> = p.chars().filter(|c| !META.contains(c)).collect();
    let mut pool: Vec<char> = vec!['a', 'b', 'A', '1', ' ', '\n', '\r', '\u{0}', '\u{300}', '\u{FFFF}', '\u{10400}', '\u{10FFFF}', '(', ')', '[', '\\', '$'];
    pool.extend(pc.iter().take(6));
    let len = rng.below(8);
    (0..len).map(|_| *rng.pick(&pool)).collect()
}

use crate::ast::META;

// ------------------------------------------------------------------------------------------
pub struct C05;

/// run the whole API surface on one 4-tuple; returns the first failure as (api, description)
fn surface(c: &Case, d: Dialect, obs: &mut Obs) -> Result<(), Outcome> {
    let bad = |kind: &str, api: &str, f: &Fail| Outcome::Violated(vec![Finding::new(&format!("{}_{}", kind, api), f.describe(), "Ok or a classified Err")]);
    let chk = |r: Result<(), (String, Fail)>| -> Result<(), Outcome> {
        match r {
            Ok(()) => Ok(()),
            Err((_, Fail::Fuel)) => Err(Outcome::Inconclusive("fuel")),
            Err((api, f @ Fail::Panic { .. })) => Err(bad("panic", &api, &f)),
            Err((api, f)) => Err(bad("iterator", &api, &f)),
        }
    };
    let wrong = |api: &str, e: &ErrKind, allowed: &str| Outcome::Violated(vec![Finding::new(if *e == ErrKind::Internal { "error_internal" } else { "error_variant_not_allowed" }, format!("{} returned Err({})", api, e.name()), format!("Ok or one of: {}", allowed))]);
    let re = match engine::compile(&c.pattern, &c.flags, d) {
        Ok(Ok(re)) => {
            obs.count("compiled_ok");
            re
        }
        Ok(Err(e)) => {
            obs.count("compile_rejected");
            if !matches!(e, ErrKind::Syntax | ErrKind::InvalidFlags) {
                return Err(wrong("Regex::new", &e, "InvalidFlags, Syntax"));
            }
            return Ok(());
        }
        Err(f) => return chk(Err(("compile".to_string(), f))),
    };
    let s = &c.input;
    chk(engine::is_match(&re, s).map(|_| ()).map_err(|f| ("is_match".to_string(), f)))?;
    let mut reps: Vec<&str> = if c.aux.as_deref() == Some("lane") { vec!["$1x", "\\$"] } else { REPLS.to_vec() };
    if let Some(r) = &c.repl {
        reps.push(r.as_str());
    }
    for r in reps {
        match engine::replace_all(&re, s, r) {
            Ok(Ok(_)) => {}
            Ok(Err(e)) => {
                if !matches!(e, ErrKind::MatchesEmptyString | ErrKind::InvalidReplacementString) {
                    return Err(wrong("replace_all", &e, "MatchesEmptyString, InvalidReplacementString"));
                }
            }
            Err(f) => return chk(Err(("replace_all".to_string(), f))),
        }
    }
    match engine::tokenize(&re, s) {
        Ok(Ok(_)) => {}
        Ok(Err(e)) => {
            if e != ErrKind::MatchesEmptyString {
                return Err(wrong("tokenize", &e, "MatchesEmptyString"));
            }
        }
        Err(f) => return chk(Err(("tokenize".to_string(), f))),
    }
    match engine::analyze(&re, s) {
        Ok(Ok(_)) => {}
        Ok(Err(e)) => {
            if e != ErrKind::MatchesEmptyString {
                return Err(wrong("analyze", &e, "MatchesEmptyString"));
            }
        }
        Err(f) => return chk(Err(("analyze".to_string(), f))),
    }
    Ok(())
}

impl Monitor for C05 {
    fn rule(&self) -> &'static str {
        "cases = 4-tuples (pattern, flags, input, replacement) of arbitrary strings: grammar-generated valid patterns, token-level mutations of them, random strings over the metacharacter alphabet plus Unicode samples (astral, combining, U+0000, U+FFFF, U+10FFFF), extreme quantifier bounds (2^32, 2^63, 2^64-1, 2^64, nested products), nesting up to a fixed depth, quantifiers on nullable / zero-width bodies, class and escape corner cases; each driven through both constructors, is_match, replace_all with 15 replacement strings, and fully drained tokenize and analyze, under catch_unwind with a panic hook recording the site; builds have overflow checks on. Violations: any panic, any Error::Internal, any error variant not allowed for the API; a dying worker process is re-run alone and classified by its signal. Non-trivial: the pattern has >= 2 characters; distinct by (pattern, flags, input, dialect)."
    }
    fn check(&self, c: &Case, obs: &mut Obs) -> Outcome {
        for d in [Dialect::XPath, Dialect::Xsd] {
            if let Err(o) = surface(c, d, obs) {
                return o;
            }
        }
        if c.aux.as_deref() == Some("structured") {
            obs.count("structured_cases");
        }
        if c.pattern.chars().count() >= 2 {
            obs.nontrivial(c.key());
        }
        if obs.want_sample() && c.pattern.chars().count() >= 4 {
            obs.sample(c.to_json());
        }
        Outcome::Held
    }
    fn workload(&self, w: &Work, emit: &mut dyn FnMut(Case)) -> J {
        let n = w.share(400_000, 16_000_000);
        let mut rng = w.rng("C05", 1);
        let flagsets = ["", "", "", "i", "m", "s", "x", "q", "ims", "ix", "qi", "imsx", "g", ";g", "i;k", "Q", " ", "ii", "xq", ";", "a", "\u{10400}"];
        for _ in 0..n {
            let (p, ast) = gen_hostile(&mut rng, 40);
            let fl = *rng.pick(&flagsets);
            // for patterns with a known AST, half of the inputs are derived from a sampled match
            let inp = match &ast {
                Some(a) if rng.chance(1, 2) => gen_input(&mut rng, a, &['a', 'b', '\n', ']', '('], 8),
                _ => hostile_input(&mut rng, &p),
            };
            let mut c = Case::raw(&p, fl, &inp);
            c.ast = None;
            if rng.chance(1, 4) {
                c.repl = Some(gen_garbage(&mut rng, 6));
            }
            emit(c);
        }
        // well-formed patterns of the shapes the other monitors use (shortcut-bearing, line-anchored
        // with groups, back-references, anchored alternatives) on the inputs that stress index
        // arithmetic: proper prefixes of a matching string (shorter than the pattern's fixed
        // offsets) and several matching lines in one input (state carried between matches)
        let ns = w.share(80_000, 3_000_000);
        let mut rng = w.rng("C05", 2);
        let cfg = GenCfg::std(&['a', 'b', 'A', '1', ' ', 'a', 'b', '\u{10400}']);
        let valid_flags = ["", "", "i", "m", "s", "x", "im", "ms", "ims", "ix"];
        for k in 0..ns {
            let mut ast = match k % 6 {
                0 | 1 => gen_shortcut(&mut rng, &cfg),
                2 if k % 12 == 2 => {
                    // groups that take part in the match of one line and not of the next
                    let g = |c: char| Node::Group(Box::new(Node::Char(c)));
                    let opt = |n: Node| Node::Repeat { body: Box::new(n), min: 0, max: Some(1), greedy: true, spell: 0 };
                    let core = match rng.below(3) {
                        0 => Node::NcGroup(Box::new(Node::Alt(vec![g('a'), g('b')]))),
                        1 => Node::Cat(vec![opt(g('a')), g('b')]),
                        _ => Node::Cat(vec![opt(g('a')), opt(g('1')), g('b')]),
                    };
                    let mut v = vec![Node::Bol, core];
                    if rng.chance(1, 3) {
                        v.push(Node::Eol);
                    }
                    Node::Cat(v)
                }
                2 => gen_line_shape(&mut rng, &['a', 'b']),
                3 => super::refprops::gen_backref_shape(&mut rng),
                4 => gen_anchor_giveback(&mut rng),
                _ => gen_pattern(&mut rng, &cfg),
            };
            if rng.chance(1, 3) && !matches!(&ast, Node::Cat(v) if matches!(v.first(), Some(Node::Bol))) {
                ast = Node::Cat(vec![Node::Bol, ast]).normalize();
            }
            if !ast.valid_backrefs() {
                continue;
            }
            let fl = *rng.pick(&valid_flags);
            let full = gen_input(&mut rng, &ast, &['a', 'b', '1', '\n'], 8);
            let chars: Vec<char> = full.chars().collect();
            let inp = match rng.below(3) {
                0 if !chars.is_empty() => chars[..rng.below(chars.len())].iter().collect::<String>(),
                1 => {
                    let lines: Vec<String> = (0..2 + rng.below(2)).map(|_| gen_input(&mut rng, &ast, &['a', 'b', '1'], 5).replace('\n', "")).collect();
                    lines.join("\n")
                }
                _ => full,
            };
            let mut c = Case::new(&ast, fl, &inp);
            c.ast = None;
            c.aux = Some("structured".to_string());
            emit(c);
        }
        J::obj().with("random_cases_this_shard", J::u(n)).with("structured_cases_this_shard", J::u(ns))
    }
    fn corpus(&self) -> Vec<Case> {
        let mut v = raw(&[
            ("a(b?)c", "", "ac"),
            ("(a|b)*b", "", "ab"),
            ("a(", "q", "a("),
            (")", "q", ")"),
            ("(?:ab){9223372036854775808}", "", "ab"),
            ("(?:a{4294967296}){4294967296}", "", "a"),
            ("^(?:b|c)a{3}", "", ""),
            ("(1)+\\1", "", "1"),
            ("\\n(?:)\\n*|(A{2,2}$|(b*)*(?:b?.*)|)*?(b\\n{0,1}a{1,}|\\2\\S)??[\\s]?b", "", "AB\nAAaB\n"),
            ("(?:a|$){4294967296}", "", ""),
            ("(?:a|$){4294967296}?", "", "a"),
        ]);
        // moderately deep nesting (well below the stack limit)
        let d = 300;
        v.push(Case::raw(&format!("{}a{}", "(".repeat(d), ")".repeat(d)), "", "a"));
        v.push(Case::raw(&format!("{}a{}", "(?:".repeat(d), ")*".repeat(d)), "", "aa"));
        v
    }
    fn shrink_text(&self) -> bool {
        true
    }
}

// ------------------------------------------------------------------------------------------
pub struct C06;

pub const C06_MAX_NODES: usize = 12;
pub const C06_MAX_QDEPTH: usize = 2;
pub const C06_MAX_INPUT: usize = 6;

/// the largest number of iterations one repeat iterator may start directly after an iteration
/// that consumed nothing (hook H4), on an input of `len` characters. Calibration on the
/// unmodified engine, outside the shape of the known finding: at most len + 2 (the priming loop of
/// a greedy iterator stacks one empty iteration per remaining character, and the progress guard
/// ends it after five results); a reluctant iterator only extends an empty iteration while its
/// minimum is not reached, which gives k^min combinations per position for k empty alternatives -
/// linear in the input with a factor that depends on the pattern only. The bound is quadratic
/// in len: far above both, far below a run that doubles with every character at the 10-16
/// characters of stratum (d).
pub fn c06_zero_width_cap(len: usize) -> u64 {
    8 * (len as u64 + 2) * (len as u64 + 2)
}

/// loops whose body is zero-width only conditionally (an anchor, a back-reference to an empty or
/// unset group), offered more than once, with a continuation that fails where they succeed
fn gen_c06_conditional(rng: &mut Rng) -> Node {
    let rep = |body: Node, q: (usize, Option<usize>), greedy: bool| Node::Repeat { body: Box::new(body), min: q.0, max: q.1, greedy, spell: 0 };
    let quants: [(usize, Option<usize>); 5] = [(0, None), (1, None), (2, None), (0, Some(30)), (1, Some(20))];
    // minima far above the input length, only over the body with a single empty way (several empty
    // alternatives under a large minimum enumerate their combinations on the unmodified engine too)
    let big_minima: [(usize, Option<usize>); 3] = [(25, None), (40, Some(60)), (12, None)];
    let with_ref = rng.chance(1, 2);
    let z = |rng: &mut Rng| -> Node {
        if with_ref {
            Node::Backref(1)
        } else {
            match rng.below(4) {
                0 | 1 => Node::Bol,
                2 => Node::Eol,
                _ => Node::NcGroup(Box::new(Node::Cat(vec![Node::Bol, Node::Bol]))),
            }
        }
    };
    let mut alts = vec![];
    for _ in 0..2 + rng.below(2) {
        alts.push(z(rng));
    }
    if rng.chance(3, 4) {
        alts.insert(rng.below(alts.len() + 1), Node::Char(*rng.pick(&['a', 'b'])));
    }
    let single_empty_way = with_ref && rng.chance(1, 3);
    let body = if single_empty_way {
        // \1a* : empty whenever the group is, one more way to split the input for every iteration
        Node::NcGroup(Box::new(Node::Cat(vec![Node::Backref(1), rep(Node::Char('a'), (0, None), true)])))
    } else {
        Node::NcGroup(Box::new(Node::Alt(alts)))
    };
    let mut v = vec![];
    if with_ref {
        v.push(Node::Group(Box::new(match rng.below(3) {
            0 => Node::Empty,
            1 => rep(Node::Char('a'), (0, Some(1)), true),
            _ => rep(Node::Char('b'), (0, None), true),
        })));
    }
    let q = if single_empty_way && rng.chance(1, 2) { *rng.pick(&big_minima) } else { *rng.pick(&quants) };
    v.push(rep(body, q, rng.chance(3, 4)));
    if rng.chance(3, 4) {
        v.push(Node::Char(*rng.pick(&['c', 'b'])));
    }
    Node::Cat(v).normalize()
}

fn gen_c06(rng: &mut Rng) -> Node {
    let rep = |body: Node, q: (usize, Option<usize>), greedy: bool| Node::Repeat { body: Box::new(body), min: q.0, max: q.1, greedy, spell: 0 };
    let quants: [(usize, Option<usize>); 12] = [(0, None), (1, None), (0, Some(1)), (2, Some(2)), (2, None), (0, Some(2)), (0, Some(0)), (1, Some(3)), (3, None), (2, Some(5)), (1, Some(30000)), (0, Some(4000))];
    let ch = |rng: &mut Rng| Node::Char(*rng.pick(&['a', 'b', 'c']));
    let body = |rng: &mut Rng| -> Node {
        match rng.below(14) {
            0 => Node::NcGroup(Box::new(Node::Empty)),
            1 => Node::Group(Box::new(Node::Empty)),
            2 => Node::Bol,
            3 => Node::Eol,
            4 => Node::NcGroup(Box::new(Node::Alt(vec![Node::Bol, Node::Eol]))),
            5 => Node::NcGroup(Box::new(Node::Alt(vec![Node::Char('a'), Node::Empty]))),
            6 => Node::NcGroup(Box::new(Node::Repeat { body: Box::new(Node::Char('a')), min: 0, max: None, greedy: true, spell: 0 })),
            7 => Node::Group(Box::new(Node::Repeat { body: Box::new(Node::Char('a')), min: 0, max: Some(1), greedy: rng.chance(1, 2), spell: 0 })),
            8 => Node::NcGroup(Box::new(Node::Cat(vec![Node::Bol, Node::Bol]))),
            9 => Node::NcGroup(Box::new(Node::Alt(vec![Node::Char('a'), Node::Cat(vec![Node::Char('b'), Node::Char('b')])]))),
            10 => Node::Group(Box::new(Node::Cat(vec![Node::Bol, Node::Char('a')]))),
            11 => Node::NcGroup(Box::new(Node::Cat(vec![Node::Eol, Node::Bol]))),
            12 => Node::Dot,
            _ => Node::Char(*rng.pick(&['a', 'b'])),
        }
    };
    let q = |rng: &mut Rng| *rng.pick(&quants);
    let n = match rng.below(9) {
        // a body that consumes the line break in one branch and tests a line boundary in another:
        // the zero-width branch becomes possible again at positions the loop itself has reached
        8 => {
            let mut alts = vec![Node::Char('\n'), Node::Char(*rng.pick(&['a', 'b'])), if rng.chance(1, 2) { Node::Bol } else { Node::Eol }];
            if rng.chance(1, 2) {
                alts.swap(0, 2);
            }
            if rng.chance(1, 3) {
                alts.swap(1, 2);
            }
            let b = Node::NcGroup(Box::new(Node::Alt(alts)));
            Node::Cat(vec![rep(b, *rng.pick(&[(0, None), (1, None), (2, None)]), rng.chance(1, 3)), ch(rng)])
        }
        0 => Node::Cat(vec![rep(body(rng), q(rng), rng.chance(1, 2)), ch(rng)]),
        1 => Node::Cat(vec![ch(rng), rep(body(rng), q(rng), rng.chance(1, 2)), ch(rng)]),
        2 => {
            // nested quantifiers
            let inner = rep(body(rng), q(rng), rng.chance(1, 2));
            Node::Cat(vec![rep(Node::NcGroup(Box::new(inner)), q(rng), rng.chance(1, 2)), ch(rng)])
        }
        3 => {
            // back-reference to a possibly empty capture, quantified
            let g = Node::Group(Box::new(rep(Node::Char('a'), (0, Some(1)), true)));
            Node::Cat(vec![g, rep(Node::Backref(1), q(rng), rng.chance(1, 2)), ch(rng)])
        }
        4 => Node::Cat(vec![Node::Group(Box::new(Node::Empty)), rep(Node::Backref(1), q(rng), rng.chance(1, 2))]),
        5 => rep(body(rng), q(rng), rng.chance(1, 2)),
        6 => Node::Alt(vec![rep(body(rng), q(rng), false), Node::Cat(vec![rep(body(rng), q(rng), true), ch(rng)])]),
        _ => {
            let mut cfg = GenCfg::std(&['a', 'b', '\n']);
            cfg.max_depth = 2;
            cfg.max_top = 3;
            cfg.quant_pct = 70;
            cfg.props = false;
            gen_pattern(rng, &cfg)
        }
    };
    n
}

impl Monitor for C06 {
    fn rule(&self) -> &'static str {
        "bounded-progress restatement: every API call on a pattern of <= 12 AST nodes with quantifier nesting <= 2 and an input of <= 6 characters completes within F2 engine steps (hook H2; F2 = 2*10^8, more than 1000x the largest step count observed for these bounds), tokenize yields <= len+1 tokens and analyze <= 2*len+1 entries, and every iterator keeps returning None (polled 3 more times). cases = patterns inside those bounds biased to quantifiers (greedy/reluctant, bounded/unbounded, {0}, {0,0}, {n,}) over nullable, zero-width (anchors, empty groups, empty alternatives) and first-attempt-failing bodies, and back-references to empty captures; plus every single-quantifier small AST exhaustively. A worker that burns its per-case CPU-time budget without ticking is killed by the driver and the case re-run alone. Non-trivial: the pattern contains a quantifier and the input is non-empty."
    }
    fn check(&self, c: &Case, obs: &mut Obs) -> Outcome {
        let ast = match ast_of(c) {
            Some(a) => a,
            None if c.flags.contains('q') && c.pattern.chars().count() <= C06_MAX_NODES => Node::Repeat { body: Box::new(Node::Char('q')), min: 1, max: Some(1), greedy: true, spell: 0 },
            None => return Outcome::Inconclusive("no_ast"),
        };
        let in_bounds = ast.size() <= C06_MAX_NODES && ast.quant_depth() <= C06_MAX_QDEPTH && c.input.chars().count() <= C06_MAX_INPUT;
        let term = |api: &str, f: &Fail| -> Outcome {
            match f {
                Fail::Fuel => {
                    if in_bounds {
                        Outcome::Violated(vec![Finding::new(&format!("step_limit_exceeded_{}", api), format!("{} did not complete within the step limit", api), "completion within F2 steps for a pattern and input inside the stated bounds")])
                    } else {
                        Outcome::Inconclusive("fuel_outside_bounds")
                    }
                }
                Fail::TooManyItems(_) => Outcome::Violated(vec![Finding::new(&format!("iterator_exceeds_bound_{}", api), f.describe(), "at most len+1 tokens / 2*len+1 analyze entries")]),
                Fail::NotFused => Outcome::Violated(vec![Finding::new(&format!("iterator_not_fused_{}", api), f.describe(), "None after the first None")]),
                Fail::Panic { .. } => Outcome::Violated(vec![Finding::new(&format!("panic_{}", api), f.describe(), "the call returns")]),
            }
        };
        let s = &c.input;
        // trace monitor on hook H4: no repeat iterator keeps extending a loop whose last iteration
        // consumed nothing. (Counting every empty iteration would not do: legitimate exponential
        // backtracking over consuming iterations ends each attempt with one empty iteration.)
        let zw_cap = if std::env::var("RXV_C06_CALIBRATE").is_ok() { u64::MAX } else { c06_zero_width_cap(s.chars().count()) };
        // the hook unwinds as soon as one iterator exceeds the cap, so that a run that doubles with
        // every character costs about as many steps as the cap, not 2^len
        struct Disarm;
        impl Drop for Disarm {
            fn drop(&mut self) {
                engine::set_zero_width_limit(0);
            }
        }
        engine::set_zero_width_limit(if zw_cap == u64::MAX { 0 } else { zw_cap });
        let _disarm = Disarm;
        let mut zw_seen = 0u64;
        let mut zw = |api: &str| -> Option<Outcome> {
            let n = engine::last_zero_width();
            zw_seen = zw_seen.max(n);
            if n > zw_cap {
                Some(Outcome::Violated(vec![Finding::new(&format!("zero_width_iteration_run_{}", api), format!("one repeat iterator started {} iterations directly after an iteration that consumed no input", n), format!("at most {} for an input of {} characters", zw_cap, s.chars().count()))]))
            } else {
                None
            }
        };
        let r = engine::compile(&c.pattern, &c.flags, c.dialect);
        if let Some(o) = zw("compile") {
            return o;
        }
        let re = match r {
            Ok(Ok(r)) => r,
            Ok(Err(_)) => return Outcome::Inconclusive("rejected_by_compiler"),
            Err(f) => return term("compile", &f),
        };
        let r = engine::is_match(&re, s);
        if let Some(o) = zw("is_match") {
            return o;
        }
        if let Err(f) = r {
            return term("is_match", &f);
        }
        obs.max("steps_is_match", engine::last_steps());
        let r = engine::replace_all(&re, s, "[$0]");
        if let Some(o) = zw("replace_all") {
            return o;
        }
        if let Err(f) = r {
            return term("replace_all", &f);
        }
        obs.max("steps_replace_all", engine::last_steps());
        let r = engine::tokenize(&re, s);
        if let Some(o) = zw("tokenize") {
            return o;
        }
        if let Err(f) = r {
            return term("tokenize", &f);
        }
        obs.max("steps_tokenize", engine::last_steps());
        let r = engine::analyze(&re, s);
        if let Some(o) = zw("analyze") {
            return o;
        }
        if let Err(f) = r {
            return term("analyze", &f);
        }
        obs.max("steps_analyze", engine::last_steps());
        obs.max("zero_width_iterations_per_iterator_max", zw_seen);
        if !ast.zero_width_loops().0 {
            // outside the shape of the known finding (loop bodies that are zero-width in one way and consuming in another)
            obs.max(&format!("zero_width_iterations_max_at_input_len_{:02}", s.chars().count()), zw_seen);
        }
        if zw_seen > 0 {
            obs.count("zero_width_iterations_observed");
        }
        if s.chars().count() > C06_MAX_INPUT {
            obs.count("longer_inputs_for_zero_width_runs");
        }
        if in_bounds {
            obs.count("inside_bounds");
        }
        if ast.quant_depth() >= 1 && !s.is_empty() {
            obs.nontrivial(c.key());
        }
        if obs.want_sample() && ast.quant_depth() >= 1 && !s.is_empty() {
            obs.sample(c.to_json());
        }
        Outcome::Held
    }
    fn workload(&self, w: &Work, emit: &mut dyn FnMut(Case)) -> J {
        let mut desc = J::obj();
        // (a) single-quantifier small ASTs, exhaustively
        let atoms = vec![Node::Char('a'), Node::Bol, Node::Eol, Node::Empty, Node::Dot, Node::Char('b')];
        let quants = vec![(0, Some(1), true), (0, None, true), (1, None, true), (0, Some(1), false), (0, None, false), (1, None, false), (2, Some(2), true), (2, None, false), (0, Some(0), true), (2, Some(3), false)];
        let inputs = all_inputs(&['a', 'b', '\n'], if w.quick() { 3 } else { 4 });
        let mut idx = 0u64;
        let mut mine = 0u64;
        for ops in 1..=(if w.quick() { 2 } else { 3 }) {
            for ast in enumerate_small(ops, &atoms, &quants) {
                if ast.quant_depth() != 1 && ops > 2 {
                    continue;
                }
                idx += 1;
                if !w.mine(idx) {
                    continue;
                }
                mine += 1;
                let stride = if ops <= 1 { 1 } else if ops == 2 { 3 } else { 11 };
                for (k, inp) in inputs.iter().enumerate() {
                    if (k as u64 + idx) % stride == 0 {
                        emit(Case::new(&ast, if ast.has_anchor() && k % 2 == 0 { "m" } else { "" }, inp));
                    }
                }
            }
        }
        desc.set("exhaustive_small", J::obj().with("patterns_total", J::u(idx)).with("patterns_this_shard", J::u(mine)).with("inputs", J::u(inputs.len() as u64)));
        // (b) dedicated generator inside the bounds
        let n = w.share(600_000, 12_000_000);
        let mut rng = w.rng("C06", 1);
        let mut made = 0u64;
        while made < n {
            let ast = gen_c06(&mut rng);
            if ast.size() > C06_MAX_NODES || ast.quant_depth() > C06_MAX_QDEPTH || !ast.valid_backrefs() {
                continue;
            }
            made += 1;
            let fl = *rng.pick(&["", "", "m", "m", "s", "i"]);
            let mut inp: String = gen_input(&mut rng, &ast, &['a', 'b', 'c', '\n'], C06_MAX_INPUT).chars().take(C06_MAX_INPUT).collect();
            if rng.chance(1, 6) {
                // a line break in front, and a tail the pattern cannot finish on
                inp = format!("\n{}", inp).chars().take(C06_MAX_INPUT - 1).collect::<String>() + "c";
            }
            emit(Case::new(&ast, fl, &inp));
        }
        // (d) conditionally zero-width loop bodies on longer inputs, for the zero-width run monitor
        // (hook H4): a run that doubles with every character is far above the linear cap at 10-16
        // characters while the call still completes
        let nd = w.share(40_000, 800_000);
        for _ in 0..nd {
            let ast = if rng.chance(2, 3) { gen_c06_conditional(&mut rng) } else { gen_c06(&mut rng) };
            if !ast.valid_backrefs() {
                continue;
            }
            let fl = *rng.pick(&["", "m", "m", "s", "i"]);
            let len = 10 + rng.below(7);
            let unit: Vec<char> = gen_input(&mut rng, &ast, &['a', 'b', 'c', '\n'], 4).chars().collect();
            let mut inp: Vec<char> = vec![];
            if rng.chance(1, 3) {
                inp.push('\n');
            }
            while inp.len() < len {
                if unit.is_empty() || rng.chance(1, 4) {
                    inp.push(*rng.pick(&['a', 'b', 'c', '\n']));
                } else {
                    inp.extend(unit.iter());
                }
            }
            inp.truncate(len);
            emit(Case::new(&ast, fl, &inp.into_iter().collect::<String>()));
        }
        desc.set("conditional_zero_width_patterns_this_shard", J::u(nd));
        // (c) literal patterns (flag q), incl. the empty literal, through all APIs
        if w.shard == 0 {
            for p in ["", "a", "(", " ", "a*", "^", "()"] {
                for f in ["q", "qi", "qx", "qm", "qs"] {
                    for inp in ["", "a", "abc", "a*( "] {
                        emit(Case::raw(p, f, inp));
                    }
                }
            }
        }
        desc.set("random_patterns_this_shard", J::u(n));
        desc.set("bounds", J::obj().with("max_nodes", J::u(C06_MAX_NODES as u64)).with("max_quantifier_nesting", J::u(C06_MAX_QDEPTH as u64)).with("max_input_len", J::u(C06_MAX_INPUT as u64)));
        desc
    }
    fn corpus(&self) -> Vec<Case> {
        raw(&[("(?:a|bb)+?c", "", "cc"), ("(?:^^)*?1", "", "c1"), ("()\\1{2}", "", "a"), ("(?:a(A))*\\1", "", "Aa"), ("a{0,0}", "", "a"), ("(?:)*", "", "a"), ("(?:^|$)+", "", "a"), ("(a*)*b", "", "aaaaaa"), ("(a?)\\1+?b", "", "b"), ("(?:a|$){2,}?c", "", "ac"), ("^*?a", "", "a")])
    }
}

// ------------------------------------------------------------------------------------------
pub struct C07;

/// edits that provably leave the grammar (the independent recogniser still has the last word)
fn break_pattern(rng: &mut Rng, p: &str) -> String {
    let v: Vec<char> = p.chars().collect();
    let at = |rng: &mut Rng| rng.below(v.len() + 1);
    let ins = |i: usize, s: &str| -> String {
        let mut q = v.clone();
        for (j, c) in s.chars().enumerate() {
            q.insert((i + j).min(q.len()), c);
        }
        q.into_iter().collect()
    };
    match rng.below(16) {
        0 => ins(at(rng), "("),
        1 => ins(at(rng), ")"),
        2 => ins(at(rng), "["),
        3 => ins(at(rng), "]"),
        4 => format!("{}{}", rng.pick(&["*", "+", "?", "{2}"]), p),
        5 => format!("{}{}{}", p, rng.pick(&["a*", "a+", "a?", "a{2}"]), rng.pick(&["*", "+", "{3}", "??", "?+"])),
        6 => format!("{}a{{{},{}}}", p, 3 + rng.below(5), rng.below(3)),
        7 => format!("{}a{}", p, rng.pick(&["{", "{1", "{1,", "{,2}", "{a}", "{1,a}", "{1;2}", "{-1}"])),
        8 => format!("{}\\", p),
        9 => format!("{}\\{}", p, rng.pick(&['a', 'e', 'f', 'g', 'h', 'j', 'k', 'l', 'm', 'o', 'q', 'u', 'v', 'x', 'y', 'z', 'A', 'B', 'E', 'G', 'Q', 'R', 'T', 'X', 'Z', '0', '_', '/', '!', '#', '%', '&', ',', ':', ';', '<', '=', '>', '@', '~', '"', '\''])),
        10 => format!("{}\\p{{{}}}", p, rng.pick(&["Xx", "Lx", "l", "Cs", "IsNoSuchBlock", "IsBasicLatinn", "", "Lu;", "L u"])),
        11 => format!("{}{}", p, rng.pick(&["[]", "[^]", "[z-a]", "[b-a]", "[a-[]]", "[\\1]", "[a", "[a-[b]", "[[a]]"])),
        12 => format!("{}\\{}", p, 1 + grammar_groups(p) + rng.below(3)),
        13 => format!("({}\\1)", p),
        14 => ins(at(rng), "(?"),
        _ => ins(at(rng), "|*"),
    }
}

fn grammar_groups(p: &str) -> usize {
    match grammar::parse(p, false, false) {
        Parsed::Valid(a) => a.count_groups(),
        _ => 0,
    }
}

impl Monitor for C07 {
    fn rule(&self) -> &'static str {
        "cases = (pattern text, flag string) for Regex::xpath: (a) patterns rendered from generated ASTs covering every production and spelling (must be accepted), (b) the same after an edit that leaves the grammar - unbalanced ( ) [ ], quantifier without operand, double quantifier, {n,m} with n>m or malformed, dangling or unknown escape, unknown category / block name, empty or reversed class, back-reference to a missing / still-open group or inside a class - and generic token mutations and garbage strings, (c) ALL flag strings of length <= 3 over {s,m,i,x,q,;,g,k,a,S,space} exhaustively. Oracle: an independent recursive-descent recogniser written from the XSD 1.1 App. G productions plus the F&O 3.1 extensions, with verdicts Valid / Invalid / Unsure; Unsure (disputed hyphen positions in classes, bounds beyond implementation limits) is counted, not judged. Non-trivial: pattern of >= 2 characters judged Valid or Invalid; both verdicts are counted."
    }
    fn check(&self, c: &Case, obs: &mut Obs) -> Outcome {
        let fv = grammar::flags_valid(&c.flags, false);
        let got = match engine::compile(&c.pattern, &c.flags, Dialect::XPath) {
            Ok(r) => r.map(|_| ()),
            Err(Fail::Fuel) => return Outcome::Inconclusive("fuel"),
            Err(f) => return Outcome::Violated(vec![Finding::new("panic_compile", f.describe(), "Ok or Err")]),
        };
        if fv == Some(false) {
            obs.count("flags_invalid");
            return match got {
                Err(ErrKind::InvalidFlags) => {
                    obs.nontrivial(c.key());
                    Outcome::Held
                }
                Err(e) => Outcome::Violated(vec![Finding::new("wrong_error_variant", format!("Err({})", e.name()), "Err(InvalidFlags)")]),
                Ok(()) => Outcome::Violated(vec![Finding::new("invalid_flags_accepted", "Ok".to_string(), "Err(InvalidFlags)")]),
            };
        }
        if fv.is_none() {
            // a ';'-introduced suffix of engine-specific options: set aside by the property
            return Outcome::Inconclusive("flag_suffix_not_judged");
        }
        obs.count("flags_valid");
        if let Err(ErrKind::InvalidFlags) = got {
            return Outcome::Violated(vec![Finding::new("valid_flags_rejected", "Err(InvalidFlags)".to_string(), "flags over {s,m,i,x,q} are valid")]);
        }
        let verdict = if c.flags.contains('q') { Parsed::Valid(Node::Empty) } else { grammar::parse(&c.pattern, false, c.flags.contains('x')) };
        if c.aux.as_deref() == Some("hyphen_edges") {
            obs.count(match &verdict {
                Parsed::Valid(_) => "hyphen_edge_oracle_valid",
                Parsed::Invalid(_) => "hyphen_edge_oracle_invalid",
                Parsed::Unsure(_) => "hyphen_edge_oracle_unsure",
            });
        }
        match verdict {
            Parsed::Unsure(r) => {
                obs.count(&format!("unsure[{}]", r));
                Outcome::Inconclusive("grammar_unsure")
            }
            Parsed::Valid(ast) => {
                obs.count("oracle_valid");
                match got {
                    Ok(()) => {
                        // which grammar productions the accepted patterns exercised
                        if !obs.quiet {
                            let mut census = std::collections::BTreeMap::new();
                            ast.census(&mut census);
                            for (k, v) in census {
                                obs.add(&format!("accepted_construct_{}", k), v);
                            }
                            if ast.any(&|n| matches!(n, Node::Class(c) if c.sub.is_some())) {
                                obs.count("accepted_construct_class_subtraction");
                            }
                            if ast.any(&|n| matches!(n, Node::Class(c) if c.neg)) {
                                obs.count("accepted_construct_negated_class");
                            }
                            if ast.any(&|n| matches!(n, Node::Repeat { body, .. } if matches!(**body, Node::Bol | Node::Eol))) {
                                obs.count("accepted_construct_quantified_anchor");
                            }
                        }
                        if c.pattern.chars().count() >= 2 {
                            obs.nontrivial(c.key());
                        }
                        if obs.want_sample() && c.pattern.chars().count() >= 4 {
                            obs.sample(c.to_json().with("verdict", J::s("valid, accepted")));
                        }
                        Outcome::Held
                    }
                    Err(e) => Outcome::Violated(vec![Finding::new("valid_pattern_rejected", format!("Err({})", e.name()), "Ok (the pattern conforms to the grammar)")]),
                }
            }
            Parsed::Invalid(reason) => {
                obs.count("oracle_invalid");
                match got {
                    Err(ErrKind::Syntax) => {
                        if c.pattern.chars().count() >= 2 {
                            obs.nontrivial(c.key());
                        }
                        if obs.want_sample() && c.pattern.chars().count() >= 4 && obs.samples.len() % 2 == 1 {
                            obs.sample(c.to_json().with("verdict", J::s(&format!("invalid ({}), rejected", reason))));
                        }
                        Outcome::Held
                    }
                    Err(e) => Outcome::Violated(vec![Finding::new("wrong_error_variant", format!("Err({})", e.name()), format!("Err(Syntax): {}", reason))]),
                    Ok(()) => Outcome::Violated(vec![Finding::new("invalid_pattern_accepted", "Ok".to_string(), format!("Err(Syntax): {}", reason))]),
                }
            }
        }
    }
    fn workload(&self, w: &Work, emit: &mut dyn FnMut(Case)) -> J {
        let mut desc = J::obj();
        // (c) all flag strings up to length 3
        let fa = ['s', 'm', 'i', 'x', 'q', ';', 'g', 'k', 'a', 'S', ' '];
        let mut idx = 0u64;
        let mut mine = 0u64;
        for f in all_inputs(&fa, 3) {
            idx += 1;
            if !w.mine(idx) {
                continue;
            }
            mine += 1;
            emit(Case::raw("a.b", &f, ""));
        }
        desc.set("exhaustive_flags", J::obj().with("max_len", J::u(3)).with("alphabet", J::s("s m i x q ; g k a S space")).with("strings_total", J::u(idx)).with("strings_this_shard", J::u(mine)).with("exhaustive", J::Bool(true)));
        // (a) + (b)
        let n = w.share(300_000, 8_000_000);
        let mut rng = w.rng("C07", 1);
        let mut cfg = GenCfg::std(&['a', 'b', 'A', '1', ' ', '-', '^', ']', '{', '\u{10400}']);
        cfg.quant_pct = 50;
        for k in 0..n {
            let ast = gen_pattern(&mut rng, &cfg);
            let p = ast.render();
            let fl = *rng.pick(&["", "", "", "i", "x", "ms"]);
            match k % 6 {
                0 | 1 => emit(Case::raw(&p, fl, "")),
                2 | 3 => emit(Case::raw(&break_pattern(&mut rng, &p), fl, "")),
                4 => emit(Case::raw(&mutate(&mut rng, &p), fl, "")),
                _ => {
                    let (h, _) = gen_hostile(&mut rng, 12);
                    emit(Case::raw(&h, fl, ""))
                }
            }
        }
        // (d) unescaped hyphens at the edges of character groups, where the grammar reads them as
        // characters: [x-], [-x], [^-x], [x-y-], [x--[y]], [x-y--[z]], [\d--[5]], [--[b]], and the
        // same inside larger patterns; the recogniser decides each one (adjacent hyphens that it
        // cannot place stay 'unsure' and are not judged)
        let nh = w.share(20_000, 400_000);
        for _ in 0..nh {
            let ch = |rng: &mut Rng| *rng.pick(&['a', 'b', 'c', 'z', '0', '9', '+', '.', '_']);
            let part = |rng: &mut Rng| -> String {
                match rng.below(5) {
                    0 => format!("{}-{}", 'a', *rng.pick(&['c', 'f', 'z'])),
                    1 => "\\d".to_string(),
                    2 => format!("{}{}", ch(rng), ch(rng)),
                    3 => "\\n".to_string(),
                    _ => ch(rng).to_string(),
                }
            };
            let neg = if rng.chance(1, 4) { "^" } else { "" };
            let sub = format!("[{}]", ch(&mut rng));
            let cls = match rng.below(8) {
                0 => format!("[{}{}-]", neg, part(&mut rng)),
                1 => format!("[{}-{}]", neg, part(&mut rng)),
                2 => format!("[{}{}--{}]", neg, part(&mut rng), sub),
                3 => format!("[{}{}{}--{}]", neg, part(&mut rng), part(&mut rng), sub),
                4 => format!("[--{}]", sub),
                5 => format!("[{}{}-{}]", neg, part(&mut rng), sub),
                6 => format!("[{}{}--]", neg, part(&mut rng)),
                _ => format!("[{}--{}]", neg, ch(&mut rng)),
            };
            let p = match rng.below(4) {
                0 => cls,
                1 => format!("^{}+$", cls),
                2 => format!("(?:{}|z){{2}}", cls),
                _ => format!("x{}*y", cls),
            };
            let mut c = Case::raw(&p, *rng.pick(&["", "", "i", "x"]), "");
            c.aux = Some("hyphen_edges".to_string());
            emit(c);
        }
        // (e) every one- and two-letter name over the letters that occur in category names, as \p{..}
        // and \P{..}, bare and inside a class: the recogniser knows the 37 valid names
        if w.shard == 0 || !w.quick() {
            let letters: Vec<char> = "LMNPZSCulotmndcespfikxU".chars().collect();
            for a in &letters {
                emit(Case::raw(&format!("\\p{{{}}}", a), "", ""));
                for b in &letters {
                    let n: String = [*a, *b].iter().collect();
                    emit(Case::raw(&format!("\\p{{{}}}", n), "", ""));
                    emit(Case::raw(&format!("[\\P{{{}}}0-9]+", n), "i", ""));
                }
            }
        }
        desc.set("hyphen_edge_patterns_this_shard", J::u(nh));
        desc.set("random_patterns_this_shard", J::u(n));
        desc
    }
    fn corpus(&self) -> Vec<Case> {
        raw(&[("^*?a", "", ""), ("$??", "", ""), ("^+?", "", ""), ("a{2,1}", "", ""), ("(a", "", ""), ("a)", "", ""), ("[a", "", ""), ("a]", "", ""), ("*a", "", ""), ("a**", "", ""), ("\\", "", ""), ("\\q", "", ""), ("\\p{Xx}", "", ""), ("\\p{IsNoSuchBlock}", "", ""), ("[]", "", ""), ("[z-a]", "", ""), ("\\1", "", ""), ("(a\\1)", "", ""), ("[\\1]", "", ""), ("(a)\\1", "", ""), ("a", "p", ""), ("a", "q", ""), ("(((", "q", ""), ("a{1,2}?", "", ""), ("(?:a)", "", ""), ("a|", "", ""), ("|", "", ""), ("", "", ""), ("()", "", ""), ("a{0}", "", ""), ("[a-z-[aeiou]]", "", ""), ("\\p{IsBasicLatin}", "", ""), ("\\$", "", "")])
    }
    fn shrink_text(&self) -> bool {
        true
    }
}
