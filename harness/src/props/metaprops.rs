// C04, C13, C15, C16 — cross-API consistency, literal flag, replacement strings, nullability guard.
use super::refcheck::*;
use super::*;
use crate::engine::{self, AEntry, Dialect, ErrKind, MEntry};
use crate::gen::*;
use crate::refmodel::{Flags, Model};
use crate::uoracle::eq_ci;

fn raw(v: &[(&str, &str, &str)]) -> Vec<Case> {
    v.iter().map(|(p, f, s)| Case::raw(p, f, s)).collect()
}

/// patterns valid in both dialects: no anchors, non-capturing groups, back-references, reluctant quantifiers
pub fn common_cfg(alpha: &[char]) -> GenCfg {
    let mut cfg = GenCfg::std(alpha);
    cfg.anchors = false;
    cfg.backrefs = false;
    cfg.ncgroups = false;
    cfg.reluctant = false;
    cfg
}

pub fn is_common(ast: &Node) -> bool {
    !ast.has_anchor() && !ast.has_backref() && !ast.has_ncgroup() && !ast.has_reluctant() && !ast.any(&|n| matches!(n, Node::Char('^') | Node::Char('$')))
}

// ------------------------------------------------------------------------------------------
pub struct C04;

impl Monitor for C04 {
    fn rule(&self) -> &'static str {
        "cases = (pattern the engine accepts for the scan APIs, flags, input incl. astral and combining characters), in both dialects; oracle-free cross-API consistency on one (regex, input): concat(analyze texts) = input; tokens = pieces between analyze's matches (empty leading / trailing / adjacent pieces kept, none for the empty input); replace_all(s,'$0') = s; replace_all(s,R) = tokens joined by R; spans from replace = spans from analyze. Non-trivial: at least one match in a non-empty input."
    }
    fn check(&self, c: &Case, obs: &mut Obs) -> Outcome {
        let re = match compile_case(c) {
            Ok(r) => r,
            Err(o) => return o,
        };
        let s = &c.input;
        macro_rules! call {
            ($e:expr, $w:expr) => {
                match api($e, $w) {
                    Ok(v) => v,
                    Err(o) => return o,
                }
            };
        }
        let an = call!(engine::analyze(&re, s), "analyze");
        let tk = call!(engine::tokenize(&re, s), "tokenize");
        let r0 = call!(engine::replace_all(&re, s, "$0"), "replace_all");
        let rr = call!(engine::replace_all(&re, s, "#"), "replace_all");
        let sp = call!(engine::spans_via_replace(&re, s), "replace_all");
        let an = match an {
            Ok(a) => a,
            Err(ErrKind::MatchesEmptyString) => {
                // the regex is (judged) nullable: all scan APIs must say so, except tokenize on ""
                let tok_ok = if s.is_empty() { tk == Ok(vec![]) } else { tk == Err(ErrKind::MatchesEmptyString) };
                if r0 != Err(ErrKind::MatchesEmptyString) || !tok_ok {
                    return Outcome::Violated(vec![Finding::new("nullability_guard_inconsistent", format!("analyze Err(MatchesEmptyString), replace {:?}, tokenize {:?}", r0, tk), "the same verdict from all three APIs")]);
                }
                return Outcome::Inconclusive("pattern_matches_empty");
            }
            Err(e) => return Outcome::Violated(vec![Finding::new("unexpected_error", format!("analyze Err({})", e.name()), "Ok or MatchesEmptyString")]),
        };
        let (tk, r0, rr, sp) = match (tk, r0, rr, sp) {
            (Ok(a), Ok(b), Ok(c2), Ok(d)) => (a, b, c2, d),
            other => return Outcome::Violated(vec![Finding::new("nullability_guard_inconsistent", format!("analyze Ok but {:?}", other), "Ok from all APIs")]),
        };
        // 1. analyze partitions the input
        let cat: String = an.iter().map(|e| e.text()).collect();
        if cat != *s {
            return Outcome::Violated(vec![Finding::new("analyze_texts_do_not_concatenate_to_input", format!("{:?}", cat), format!("{:?}", s))]);
        }
        // 2. tokens = pieces between matches
        let mut pieces: Vec<String> = vec![];
        if !s.is_empty() {
            let mut cur = String::new();
            for e in &an {
                match e {
                    AEntry::NonMatch(t) => cur.push_str(t),
                    AEntry::Match(_) => pieces.push(std::mem::take(&mut cur)),
                }
            }
            pieces.push(cur);
        }
        if tk != pieces {
            return Outcome::Violated(vec![Finding::new("tokens_differ_from_analyze_pieces", format!("{:?}", tk), format!("{:?}", pieces))]);
        }
        // 3. replace with $0 is the identity
        if r0 != *s {
            return Outcome::Violated(vec![Finding::new("replace_dollar0_not_identity", format!("{:?}", r0), format!("{:?}", s))]);
        }
        // 4. replace with R = tokens joined by R
        let joined = if s.is_empty() { String::new() } else { pieces.join("#") };
        if rr != joined {
            return Outcome::Violated(vec![Finding::new("replace_differs_from_joined_tokens", format!("{:?}", rr), format!("{:?}", joined))]);
        }
        // 5. the same spans
        let asp = analyze_spans(&an);
        if asp != sp {
            return Outcome::Violated(vec![Finding::new("spans_differ_between_replace_and_analyze", format!("replace {:?}", sp), format!("analyze {:?}", asp))]);
        }
        if asp.iter().any(|(a, b)| a == b) {
            return Outcome::Violated(vec![Finding::new("zero_length_match_reported", format!("{:?}", asp), "no zero-length match")]);
        }
        if !asp.is_empty() {
            obs.count("cases_with_matches");
            if asp.windows(2).any(|w| w[0].1 == w[1].0) {
                obs.count("adjacent_matches");
            }
            if asp[0].0 == 0 {
                obs.count("match_at_offset_0");
            }
            if asp.last().unwrap().1 == s.chars().count() {
                obs.count("match_at_end");
            }
            obs.nontrivial(c.key());
            if obs.want_sample() {
                obs.sample(c.to_json().with("spans", J::s(&format!("{:?}", asp))).with("tokens", J::s(&format!("{:?}", tk))));
            }
        } else {
            obs.count("cases_without_match");
        }
        if c.dialect == Dialect::Xsd {
            obs.count("xsd_dialect");
        }
        // "tokenize yields exactly the pieces between consecutive matches": the common span sequence
        // must also be the right one (leftmost, in the match relation / ordered choice), otherwise
        // three loops that miss the same match would look consistent
        if c.dialect == Dialect::XPath && !c.flags.contains('q') {
            match ref_check(c, &mut Obs::scratch(), Wants { spans: true, ..Default::default() }) {
                Outcome::Violated(f) => return Outcome::Violated(f),
                Outcome::Held => obs.count("spans_also_checked_against_reference"),
                Outcome::Inconclusive(_) => {}
            }
        }
        Outcome::Held
    }
    fn workload(&self, w: &Work, emit: &mut dyn FnMut(Case)) -> J {
        let n = w.share(160_000, 5_000_000);
        let mut rng = w.rng("C04", 1);
        let alpha = ['a', 'b', 'a', 'b', 'A', ' ', '\u{10400}', '\u{301}', '\n'];
        let mut cfg = GenCfg::std(&alpha);
        cfg.no_nullable_quant = true;
        let common = common_cfg(&alpha);
        let extra = ['a', 'b', '\u{10400}', '\u{301}', '\n', ' '];
        // brackets, parentheses and the backslash as literals (the text of the pattern is re-scanned
        // by analyze for its group-nesting table) together with groups that may capture nothing
        let mut meta = GenCfg::std(&['a', 'b', ']', '[', '(', ')', '\\', '-', 'a', '1']);
        meta.backrefs = false;
        // loops whose body ends in a quantified group, followed by '$' under flag m
        let mut loops = GenCfg::std(&['a', 'b', '\n', 'x', 'a']);
        loops.backrefs = false;
        loops.quant_pct = 60;
        for k in 0..n {
            let xsd = k % 3 == 2;
            let line = k % 12 == 1;
            let metas = k % 12 == 4;
            let eol = k % 12 == 7;
            let ast = if xsd {
                gen_pattern(&mut rng, &common)
            } else if line {
                gen_line_shape(&mut rng, &['a', 'b', '#'])
            } else if metas {
                gen_pattern(&mut rng, &meta)
            } else if eol && rng.chance(1, 2) {
                // (?: x (g)q )+ $ : a loop whose body ends in a quantified group that may take the line
                // break, so that a given-back iteration of the group ends beyond the final match
                let x = if rng.chance(1, 2) { Node::Char(*rng.pick(&['a', 'x'])) } else { Node::Class(crate::ast::ClassExpr { neg: false, items: vec![crate::ast::ClassItem::Ch('x'), crate::ast::ClassItem::Ch('a')], sub: None }) };
                let g = match rng.below(3) {
                    0 => Node::Cat(vec![Node::Char('a'), Node::Char('\n')]),
                    1 => Node::Char('\n'),
                    _ => Node::Cat(vec![Node::Char(*rng.pick(&['a', 'b'])), Node::Repeat { body: Box::new(Node::Char('\n')), min: 0, max: Some(1), greedy: true, spell: 0 }]),
                };
                let (qmin, qmax) = *rng.pick(&[(0, None), (0, Some(1)), (1, None), (0, Some(2))]);
                let inner = Node::Repeat { body: Box::new(Node::Group(Box::new(g))), min: qmin, max: qmax, greedy: true, spell: 0 };
                let body = Node::NcGroup(Box::new(Node::Cat(vec![x, inner])));
                let (omin, omax) = *rng.pick(&[(1, None), (0, None), (1, Some(3)), (2, None)]);
                let mut v = vec![Node::Repeat { body: Box::new(body), min: omin, max: omax, greedy: true, spell: 0 }, Node::Eol];
                if rng.chance(1, 3) {
                    v.insert(0, Node::Char(*rng.pick(&['a', 'b', 'x'])));
                }
                Node::Cat(v)
            } else if eol {
                Node::Cat(vec![gen_pattern(&mut rng, &loops), Node::Eol]).normalize()
            } else {
                gen_pattern(&mut rng, &cfg)
            };
            if ast.nullable() {
                continue;
            }
            let fl = if line { *rng.pick(&["m", "ms"]) } else if eol { "m" } else { *rng.pick(&["", "", "i", "s", "m"]) };
            for j in 0..3 {
                let mut inp = gen_input(&mut rng, &ast, &extra, 8);
                if j == 2 {
                    inp = format!("{}{}", inp, inp); // adjacent repeats
                }
                let mut c = if xsd { let mut c = Case::new(&ast, fl, &inp); c.pattern = ast.render_xsd(); c.dialect = Dialect::Xsd; c } else { Case::new(&ast, fl, &inp) };
                if xsd {
                    c.ast = None; // the XSD text is what is tested; shrink on the text
                }
                emit(c);
            }
        }
        J::obj().with("random_patterns_this_shard", J::u(n))
    }
    fn corpus(&self) -> Vec<Case> {
        raw(&[("(?:a|ab){0,2}c", "", "abac"), ("x(?:a|ab){0,2}c", "", "xabac"), ("(?:\\d|\\d\\d-){0,2};", "i", "12-3; 12-3;"), ("a", "", ""), ("a", "", "a"), ("a", "", "aa"), ("a", "", "bab"), ("ab", "", "abab"), ("\u{10400}", "", "a\u{10400}\u{10400}b"), ("b+", "", "abbbabb"), ("a\u{301}", "", "a\u{301}a")])
    }
}

// ------------------------------------------------------------------------------------------
pub struct C16;

impl Monitor for C16 {
    fn rule(&self) -> &'static str {
        "cases = (pattern biased to nullable and barely non-nullable bodies, anchors-only patterns, optional groups, back-references to possibly-empty groups; flags; input); oracle: does the pattern match the zero-length string according to the match relation (set semantics on the empty input); replace_all and analyze on any input and tokenize on non-empty input must return Err(MatchesEmptyString) iff so; tokenize('') yields no tokens; Ok results contain no zero-length match. Non-trivial: AST >= 2 nodes; both oracle verdicts are counted."
    }
    fn check(&self, c: &Case, obs: &mut Obs) -> Outcome {
        let (nullable, size) = if c.flags.contains('q') {
            // a literal pattern matches the empty string iff it is empty
            obs.count("literal_patterns");
            (c.pattern.is_empty(), 2)
        } else {
            let ast = match ast_of(c) {
                Some(a) => a,
                None => return Outcome::Inconclusive("no_ast"),
            };
            let flags = Flags::parse(&c.flags);
            let readings = Model::readings(&ast, flags);
            let mut verdicts = vec![];
            for m in &readings {
                match m.nullable_dynamic() {
                    Ok(b) => verdicts.push(b),
                    Err(_) => return Outcome::Inconclusive("oracle_budget"),
                }
            }
            if verdicts.iter().any(|v| *v != verdicts[0]) {
                return Outcome::Inconclusive("capture_semantics_disputed");
            }
            (verdicts[0], ast.size())
        };
        let re = match compile_case(c) {
            Ok(r) => r,
            Err(o) => return o,
        };
        let s = &c.input;
        macro_rules! call {
            ($e:expr, $w:expr) => {
                match api($e, $w) {
                    Ok(v) => v,
                    Err(o) => return o,
                }
            };
        }
        obs.count(if nullable { "oracle_nullable" } else { "oracle_not_nullable" });
        if c.dialect == Dialect::Xsd {
            obs.count(if nullable { "xsd_oracle_nullable" } else { "xsd_oracle_not_nullable" });
        }
        let rep = call!(engine::spans_via_replace(&re, s), "replace_all");
        let an = call!(engine::analyze(&re, s), "analyze");
        let tk = call!(engine::tokenize(&re, s), "tokenize");
        let tk_empty = call!(engine::tokenize(&re, ""), "tokenize");
        if tk_empty != Ok(vec![]) {
            return Outcome::Violated(vec![Finding::new("tokenize_empty_input_yields_tokens_or_error", format!("{:?}", tk_empty), "Ok([])")]);
        }
        let want_err = |r: bool, what: &str| -> Option<Outcome> {
            // r = "the API returned Err(MatchesEmptyString)"
            if r != nullable {
                let kind = if nullable { "nullable_pattern_not_rejected" } else { "non_nullable_pattern_rejected" };
                Some(Outcome::Violated(vec![Finding::new(kind, format!("{}: {}", what, if r { "Err(MatchesEmptyString)" } else { "Ok" }), format!("the pattern {} the empty string", if nullable { "matches" } else { "does not match" }))]))
            } else {
                None
            }
        };
        for (r, what) in [(matches!(rep, Err(ErrKind::MatchesEmptyString)), "replace_all"), (matches!(an, Err(ErrKind::MatchesEmptyString)), "analyze")] {
            if let Some(o) = want_err(r, what) {
                return o;
            }
        }
        if !s.is_empty() {
            if let Some(o) = want_err(matches!(tk, Err(ErrKind::MatchesEmptyString)), "tokenize") {
                return o;
            }
        }
        for (e, what) in [(rep.as_ref().err(), "replace_all"), (an.as_ref().err(), "analyze"), (tk.as_ref().err(), "tokenize")] {
            if let Some(e) = e {
                if *e != ErrKind::MatchesEmptyString {
                    return Outcome::Violated(vec![Finding::new("unexpected_error", format!("{} Err({})", what, e.name()), "Ok or MatchesEmptyString")]);
                }
            }
        }
        if let Ok(sp) = &rep {
            if sp.iter().any(|(a, b)| a == b) {
                return Outcome::Violated(vec![Finding::new("zero_length_match_reported", format!("replace spans {:?}", sp), "no zero-length match")]);
            }
        }
        if let Ok(entries) = &an {
            if entries.iter().any(|e| matches!(e, AEntry::Match(_)) && e.text().is_empty()) {
                return Outcome::Violated(vec![Finding::new("zero_length_match_reported", "analyze reports an empty Match entry".to_string(), "no zero-length match")]);
            }
        }
        if size >= 2 {
            obs.nontrivial(c.key());
        }
        if obs.want_sample() && size >= 3 {
            obs.sample(c.to_json().with("oracle_matches_empty", J::Bool(nullable)).with("replace_all", J::s(&format!("{:?}", rep))));
        }
        Outcome::Held
    }
    fn workload(&self, w: &Work, emit: &mut dyn FnMut(Case)) -> J {
        let mut desc = J::obj();
        // (a) exhaustive small patterns over nullable-prone atoms x a few inputs
        let atoms = vec![Node::Char('a'), Node::Bol, Node::Eol, Node::Empty, Node::Dot];
        let quants = vec![(0, Some(1), true), (0, None, true), (1, None, true), (0, None, false), (1, None, false), (2, Some(2), true), (0, Some(2), false)];
        let n_ops = if w.quick() { 2 } else { 3 };
        let mut idx = 0u64;
        let mut mine = 0u64;
        for ops in 0..=n_ops {
            for ast in enumerate_small(ops, &atoms, &quants) {
                idx += 1;
                if !w.mine(idx) {
                    continue;
                }
                mine += 1;
                for fl in ["", "m"] {
                    if fl == "m" && !ast.has_anchor() {
                        continue;
                    }
                    for inp in ["", "a", "aa", "a\na", "\n"] {
                        emit(Case::new(&ast, fl, inp));
                    }
                }
            }
        }
        desc.set("exhaustive_small", J::obj().with("max_operators", J::u(n_ops as u64)).with("patterns_total", J::u(idx)).with("patterns_this_shard", J::u(mine)).with("atoms", J::s("a ^ $ (empty) .")).with("inputs", J::s("'' a aa a\\na \\n")));
        // (b) random, biased to optional things
        let n = w.share(150_000, 5_000_000);
        let mut rng = w.rng("C16", 1);
        let mut cfg = GenCfg::std(&['a', 'b', 'a', '\n']);
        cfg.quant_pct = 65;
        cfg.max_top = 3;
        for _ in 0..n {
            let ast = gen_pattern(&mut rng, &cfg);
            let fl = *rng.pick(&["", "", "m", "s", "i"]);
            for _ in 0..2 {
                let inp = gen_input(&mut rng, &ast, &['a', 'b', '\n'], 6);
                emit(Case::new(&ast, fl, &inp));
            }
        }
        desc.set("random_patterns_this_shard", J::u(n));
        // (d) the XSD dialect, where ^ and $ are ordinary characters: 'a*$' does not match the empty
        // string there. Generated with placeholders and rewritten in the text, because the renderer
        // would escape them
        let nx = w.share(30_000, 600_000);
        let mut cx = GenCfg::std(&['a', 'b', 'X', 'Y', 'X']);
        cx.anchors = false;
        cx.backrefs = false;
        cx.reluctant = false;
        cx.ncgroups = false;
        cx.classes = false;
        cx.props = false;
        cx.quant_pct = 60;
        cx.max_top = 3;
        fn subst(n: &Node) -> Node {
            match n {
                Node::Char('X') => Node::Char('$'),
                Node::Char('Y') => Node::Char('^'),
                Node::Group(b) => Node::Group(Box::new(subst(b))),
                Node::NcGroup(b) => Node::NcGroup(Box::new(subst(b))),
                Node::Cat(v) => Node::Cat(v.iter().map(subst).collect()),
                Node::Alt(v) => Node::Alt(v.iter().map(subst).collect()),
                Node::Repeat { body, min, max, greedy, spell } => Node::Repeat { body: Box::new(subst(body)), min: *min, max: *max, greedy: *greedy, spell: *spell },
                o => o.clone(),
            }
        }
        for _ in 0..nx {
            let ast0 = gen_pattern(&mut rng, &cx);
            let text = ast0.render_xsd();
            if text.contains("(?:") || !(text.contains('X') || text.contains('Y')) {
                continue;
            }
            let text = text.replace('X', "$").replace('Y', "^");
            let ast = subst(&ast0);
            let fl = *rng.pick(&["", "", "m", "s", "i"]);
            for _ in 0..2 {
                let inp = gen_input(&mut rng, &ast, &['a', 'b', '$', '^', '\n'], 6);
                let mut c = Case::new(&ast, fl, &inp);
                c.pattern = text.clone();
                c.dialect = Dialect::Xsd;
                emit(c);
            }
        }
        desc.set("xsd_literal_anchor_patterns_this_shard", J::u(nx));
        // (e) a hundred and more optional groups and a three-digit back-reference: nullable only if
        // the reference is read with all its digits
        if w.shard == 0 {
            for ng in [99usize, 100, 101, 110] {
                for k in [ng, ng - 1, 100.min(ng), 10, 1] {
                    let mut p = String::new();
                    for _ in 0..ng {
                        p.push_str("(a)?");
                    }
                    p.push_str(&format!("\\{}", k));
                    for inp in ["", "x0y", "a"] {
                        emit(Case::raw(&p, "", inp));
                    }
                }
            }
        }
        // (c) literal patterns (flag q, also combined with i m s x) incl. the empty literal, and the empty pattern
        if w.shard == 0 {
            for p in ["", "a", "(", "a*", " ", "^", "$", "()", "\u{10400}"] {
                for f in ["q", "qi", "qx", "qm", "qs", "iq"] {
                    for inp in ["", "a", "abc", "a*(", " "] {
                        emit(Case::raw(p, f, inp));
                    }
                }
            }
            for f in ["", "i", "m", "s", "x", "ms"] {
                for inp in ["", "a", "ab"] {
                    emit(Case::raw("", f, inp));
                }
            }
        }
        desc
    }
    fn corpus(&self) -> Vec<Case> {
        raw(&[("", "q", "abc"), ("", "", "abc"), ("a", "q", ""), ("a*", "", "b"), ("a?", "", "a"), ("^$", "", "a"), ("^", "m", "a\nb"), ("()\\1{2}", "", "a"), ("(?:a(A))*\\1", "", "Aa"), ("(a)|\\1", "", "b"), ("a|", "", "a"), ("(?:a|$)", "", "ab"), ("a", "", ""), ("$", "m", "\n")])
    }
}

// ------------------------------------------------------------------------------------------
pub struct C13;

fn find_lit(hay: &[char], lit: &[char], from: usize, ci: bool) -> Option<usize> {
    if lit.is_empty() || hay.len() < lit.len() {
        return None;
    }
    (from..=hay.len() - lit.len()).find(|&i| lit.iter().enumerate().all(|(k, c)| hay[i + k] == *c || (ci && eq_ci(hay[i + k], *c))))
}

impl Monitor for C13 {
    fn rule(&self) -> &'static str {
        "cases = (literal pattern over the full metacharacter alphabet ( ) [ ] { } \\ ? * + | . ^ $ - plus letters and an astral character, flags q / qi optionally with m s x, input containing the literal 0-3 times incl. adjacent and overlapping candidates, replacement over {$ \\ digit letter}); oracle: plain substring search on code points (case-blind for qi): is_match = contains, replace_all = non-overlapping left-to-right replacement with the verbatim replacement, tokenize = split, analyze = alternating NonMatch / Match([String]) with no group entries; m, s, x change nothing. Patterns of length <= 2 (quick) / 3 (thorough) over the alphabet are enumerated exhaustively. Non-trivial: the pattern contains a metacharacter and the input contains the literal."
    }
    fn check(&self, c: &Case, obs: &mut Obs) -> Outcome {
        if !c.flags.contains('q') {
            return Outcome::Inconclusive("no_q_flag");
        }
        let ci = c.flags.contains('i');
        let lit: Vec<char> = c.pattern.chars().collect();
        let hay: Vec<char> = c.input.chars().collect();
        let re = match api(engine::compile(&c.pattern, &c.flags, c.dialect), "compile") {
            Ok(Ok(r)) => r,
            Ok(Err(e)) => return Outcome::Violated(vec![Finding::new("literal_pattern_rejected", format!("Err({})", e.name()), "every string is a valid pattern with flag q")]),
            Err(o) => return o,
        };
        if c.aux.as_deref() == Some("self") {
            // oracle-free identity, valid for every character whatever its case mappings: a literal
            // matches itself, as one match covering the whole input, with or without flag i
            if lit.is_empty() {
                return Outcome::Inconclusive("empty_literal");
            }
            let got = match api(engine::is_match(&re, &c.pattern), "is_match") {
                Ok(b) => b,
                Err(o) => return o,
            };
            if !got {
                return Outcome::Violated(vec![Finding::new("literal_does_not_match_itself", "is_match(pattern) = false".to_string(), "true")]);
            }
            match api(engine::analyze(&re, &c.pattern), "analyze") {
                Ok(Ok(v)) => {
                    let ok = v.len() == 1 && matches!(&v[0], AEntry::Match(_)) && v[0].text() == c.pattern;
                    if !ok {
                        return Outcome::Violated(vec![Finding::new("literal_does_not_match_itself", format!("analyze(pattern) = {:?}", v), "one match covering the whole input")]);
                    }
                }
                Ok(Err(e)) => return Outcome::Violated(vec![Finding::new("literal_does_not_match_itself", format!("analyze: Err({})", e.name()), "one match covering the whole input")]),
                Err(o) => return o,
            }
            // and inside a longer input it is found (where exactly may depend on case variants)
            match api(engine::is_match(&re, &c.input), "is_match") {
                Ok(true) => {}
                Ok(false) => return Outcome::Violated(vec![Finding::new("literal_not_found_in_input_containing_it", "false".to_string(), "true")]),
                Err(o) => return o,
            }
            // replace_all sees the same occurrences: the input contains the literal, so the result differs
            // from the input; on the literal itself the result is the replacement
            match api(engine::replace_all(&re, &c.pattern, "\u{1}"), "replace_all") {
                Ok(Ok(r)) if r == "\u{1}" => {}
                Ok(other) => return Outcome::Violated(vec![Finding::new("literal_does_not_match_itself", format!("replace_all(pattern) = {:?}", other), "the replacement")]),
                Err(o) => return o,
            }
            match api(engine::replace_all(&re, &c.input, "\u{1}"), "replace_all") {
                Ok(Ok(r)) if r.contains('\u{1}') => {}
                Ok(other) => return Outcome::Violated(vec![Finding::new("literal_not_found_in_input_containing_it", format!("replace_all = {:?}", other), "at least one occurrence replaced")]),
                Err(o) => return o,
            }
            obs.count("literal_self_match_checked");
            obs.nontrivial(c.key());
            return Outcome::Held;
        }
        macro_rules! call {
            ($e:expr, $w:expr) => {
                match api($e, $w) {
                    Ok(v) => v,
                    Err(o) => return o,
                }
            };
        }
        let s = &c.input;
        let repl = c.repl.clone().unwrap_or_else(|| "$1\\".to_string());
        // reference
        let exp_match = if lit.is_empty() { true } else { find_lit(&hay, &lit, 0, ci).is_some() };
        let got = call!(engine::is_match(&re, s), "is_match");
        if got != exp_match {
            return Outcome::Violated(vec![Finding::new("literal_is_match_differs_from_contains", format!("{}", got), format!("{}", exp_match))]);
        }
        let rp = call!(engine::replace_all(&re, s, &repl), "replace_all");
        let tk = call!(engine::tokenize(&re, s), "tokenize");
        let an = call!(engine::analyze(&re, s), "analyze");
        if lit.is_empty() {
            // the empty literal matches the empty string
            let ok = rp == Err(ErrKind::MatchesEmptyString) && an == Err(ErrKind::MatchesEmptyString) && (if s.is_empty() { tk == Ok(vec![]) } else { tk == Err(ErrKind::MatchesEmptyString) });
            if !ok {
                return Outcome::Violated(vec![Finding::new("empty_literal_not_rejected", format!("replace {:?} tokenize {:?} analyze {:?}", rp, tk, an), "MatchesEmptyString")]);
            }
            return Outcome::Held;
        }
        let mut pieces: Vec<String> = vec![];
        let mut matched: Vec<String> = vec![];
        let mut pos = 0;
        while let Some(i) = find_lit(&hay, &lit, pos, ci) {
            pieces.push(hay[pos..i].iter().collect());
            matched.push(hay[i..i + lit.len()].iter().collect());
            pos = i + lit.len();
        }
        pieces.push(hay[pos..].iter().collect());
        let exp_replace = pieces.join(&repl);
        if rp != Ok(exp_replace.clone()) {
            return Outcome::Violated(vec![Finding::new("literal_replace_differs", format!("{:?}", rp), format!("Ok({:?})", exp_replace))]);
        }
        let exp_tokens: Vec<String> = if hay.is_empty() { vec![] } else { pieces.clone() };
        if tk != Ok(exp_tokens.clone()) {
            return Outcome::Violated(vec![Finding::new("literal_tokenize_differs", format!("{:?}", tk), format!("Ok({:?})", exp_tokens))]);
        }
        let mut exp_an = vec![];
        for (i, p) in pieces.iter().enumerate() {
            if !p.is_empty() {
                exp_an.push(AEntry::NonMatch(p.clone()));
            }
            if i < matched.len() {
                exp_an.push(AEntry::Match(vec![MEntry::Str(matched[i].clone())]));
            }
        }
        if an != Ok(exp_an.clone()) {
            return Outcome::Violated(vec![Finding::new("literal_analyze_differs", format!("{:?}", an), format!("Ok({:?})", exp_an))]);
        }
        // m, s, x have no effect together with q
        for extra in ["m", "s", "x", "msx"] {
            let fl2 = format!("{}{}", c.flags, extra);
            match engine::compile(&c.pattern, &fl2, c.dialect) {
                Ok(Ok(re2)) => {
                    let g2 = call!(engine::is_match(&re2, s), "is_match");
                    let r2 = call!(engine::replace_all(&re2, s, &repl), "replace_all");
                    if g2 != got || r2 != rp {
                        return Outcome::Violated(vec![Finding::new("flag_changes_literal_behaviour", format!("flags {:?}: is_match {} replace {:?}", fl2, g2, r2), format!("flags {:?}: is_match {} replace {:?}", c.flags, got, rp))]);
                    }
                    obs.count("extra_flag_ignored_checked");
                }
                Ok(Err(e)) => return Outcome::Violated(vec![Finding::new("literal_pattern_rejected", format!("flags {:?}: Err({})", fl2, e.name()), "accepted")]),
                Err(engine::Fail::Fuel) => {}
                Err(f) => return Outcome::Violated(vec![Finding::new("panic_compile", f.describe(), "Ok")]),
            }
        }
        let has_meta = lit.iter().any(|c| crate::ast::META.contains(c));
        if has_meta && !matched.is_empty() {
            obs.nontrivial(c.key());
        }
        obs.count(if matched.is_empty() { "literal_absent" } else { "literal_present" });
        if matched.len() > 1 {
            obs.count("literal_present_several_times");
        }
        if obs.want_sample() && has_meta && !matched.is_empty() {
            obs.sample(c.to_json().with("replace_all", J::s(&format!("{:?}", rp))).with("tokens", J::s(&format!("{:?}", tk))));
        }
        Outcome::Held
    }
    fn workload(&self, w: &Work, emit: &mut dyn FnMut(Case)) -> J {
        let mut desc = J::obj();
        let alpha: Vec<char> = vec!['(', ')', '[', ']', '{', '}', '\\', '?', '*', '+', '|', '.', '^', '$', '-', 'a', 'B', '1', ' ', '\u{10400}'];
        let mk_input = |rng: &mut Rng, lit: &str| -> String {
            let mut s = String::new();
            let k = rng.below(4);
            for _ in 0..=k {
                for _ in 0..rng.below(3) {
                    s.push(*rng.pick(&alpha));
                }
                if rng.chance(3, 4) {
                    if rng.chance(1, 4) {
                        // overlapping candidate: literal minus its last char, then the literal
                        let v: Vec<char> = lit.chars().collect();
                        s.extend(v[..v.len().saturating_sub(1)].iter());
                    }
                    s.push_str(lit);
                }
            }
            s
        };
        let repls = ["$1\\", "x", "", "$", "\\", "$0", "\\$", "a$b\\c", "\u{10400}"];
        // (a) exhaustive short literals
        let maxlen = if w.quick() { 2 } else { 3 };
        let mut idx = 0u64;
        let mut mine = 0u64;
        let mut rng = w.rng("C13", 0);
        for lit in all_inputs(&alpha, maxlen) {
            if lit.is_empty() {
                continue;
            }
            idx += 1;
            if !w.mine(idx) {
                continue;
            }
            mine += 1;
            for fl in ["q", "qi"] {
                for _ in 0..2 {
                    let inp = mk_input(&mut rng, &lit);
                    let mut c = Case::raw(&lit, fl, &inp);
                    c.repl = Some(rng.pick(&repls).to_string());
                    emit(c);
                }
            }
        }
        desc.set("exhaustive_literals", J::obj().with("max_len", J::u(maxlen as u64)).with("alphabet_size", J::u(alpha.len() as u64)).with("literals_total", J::u(idx)).with("literals_this_shard", J::u(mine)).with("exhaustive", J::Bool(true)));
        // (b) random longer literals
        let n = w.share(300_000, 6_000_000);
        let mut rng = w.rng("C13", 1);
        for _ in 0..n {
            let len = 1 + rng.below(6);
            let lit: String = (0..len).map(|_| *rng.pick(&alpha)).collect();
            let fl = *rng.pick(&["q", "qi", "q", "iq"]);
            let inp = if rng.chance(1, 2) && fl.contains('i') { mk_input(&mut rng, &lit).chars().map(|c| if c == 'a' { 'A' } else if c == 'B' { 'b' } else if c == '\u{10400}' { '\u{10428}' } else { c }).collect() } else { mk_input(&mut rng, &lit) };
            let mut c = Case::raw(&lit, fl, &inp);
            c.repl = Some(rng.pick(&repls).to_string());
            emit(c);
        }
        desc.set("random_literals_this_shard", J::u(n));
        // (c) self-match identity over letters with irregular case relations (no case model needed)
        let ns = w.share(30_000, 600_000);
        let irregular = super::refprops::IRREGULAR_CASE;
        for _ in 0..ns {
            let len = 1 + rng.below(5);
            let lit: String = (0..len).map(|_| if rng.chance(1, 5) { *rng.pick(&alpha) } else { *rng.pick(irregular) }).collect();
            let fl = *rng.pick(&["qi", "iq", "q", "qix", "qims"]);
            let mut inp = String::new();
            for _ in 0..rng.below(4) {
                inp.push(*rng.pick(irregular));
            }
            inp.push_str(&lit);
            for _ in 0..rng.below(4) {
                inp.push(*rng.pick(irregular));
            }
            let mut c = Case::raw(&lit, fl, &inp);
            c.aux = Some("self".to_string());
            emit(c);
        }
        desc.set("self_match_literals_this_shard", J::u(ns));
        desc
    }
    fn corpus(&self) -> Vec<Case> {
        let mut v = raw(&[("a(", "q", "xa(y"), (")", "q", "a)b"), ("(", "q", "(("), ("a.b", "q", "a.b axb"), ("[", "qi", "[["), ("\\", "q", "a\\b"), ("aa", "q", "aaa"), ("", "q", "a"), ("A", "qi", "aAa")]);
        for c in v.iter_mut() {
            c.repl = Some("$1\\".to_string());
        }
        v
    }
    fn shrink_text(&self) -> bool {
        true
    }
}

// ------------------------------------------------------------------------------------------
pub struct C15;

/// reference expansion of a replacement string. Err = invalid replacement string.
pub fn expand(repl: &[char], ngroups: usize, whole: &str, groups: &[String]) -> Result<String, String> {
    let mut out = String::new();
    let mut i = 0;
    while i < repl.len() {
        let c = repl[i];
        if c == '\\' {
            match repl.get(i + 1) {
                Some('\\') => out.push('\\'),
                Some('$') => out.push('$'),
                _ => return Err("backslash not followed by \\ or $".into()),
            }
            i += 2;
        } else if c == '$' {
            let d = match repl.get(i + 1).and_then(|c| c.to_digit(10)) {
                Some(d) => d as usize,
                None => return Err("$ not followed by a digit".into()),
            };
            i += 2;
            let mut n = d;
            if ngroups > 9 {
                while let Some(d2) = repl.get(i).and_then(|c| c.to_digit(10)) {
                    let m = n * 10 + d2 as usize;
                    if m > ngroups {
                        break;
                    }
                    n = m;
                    i += 1;
                }
            }
            if n == 0 {
                out.push_str(whole);
            } else if n <= ngroups {
                out.push_str(&groups[n - 1]);
            }
        } else {
            out.push(c);
            i += 1;
        }
    }
    Ok(out)
}

fn groups_pattern(rng: &mut Rng, ng: usize) -> Node {
    groups_pattern_with_match(rng, ng).0
}

/// a pattern with exactly ng groups that matches runs of letters, and a string it matches; some
/// groups optional, some quantified {0} / {0,0} (they still count as groups and keep their number,
/// but never participate), some nested
fn groups_pattern_with_match(rng: &mut Rng, ng: usize) -> (Node, String) {
    let letters = ['a', 'b', 'c'];
    let mut v = vec![];
    let mut one = String::new();
    let mut g = 0;
    while g < ng {
        let c = Node::Char(letters[g % 3]);
        let mut grp = Node::Group(Box::new(c));
        let mut text = letters[g % 3].to_string();
        if g + 1 < ng && rng.chance(1, 8) {
            // nest the next group inside this one
            g += 1;
            grp = Node::Group(Box::new(Node::Cat(vec![Node::Char(letters[(g - 1) % 3]), Node::Group(Box::new(Node::Char(letters[g % 3])))])));
            text.push(letters[g % 3]);
        }
        match rng.below(8) {
            0 | 1 => v.push(Node::Repeat { body: Box::new(grp), min: 0, max: Some(1), greedy: true, spell: 0 }),
            2 => {
                v.push(Node::Repeat { body: Box::new(grp), min: 0, max: Some(0), greedy: true, spell: if rng.chance(1, 2) { 2 } else { 1 } });
                text.clear();
            }
            _ => v.push(grp),
        }
        one.push_str(&text);
        g += 1;
    }
    if ng == 0 || one.is_empty() || rng.chance(1, 3) {
        v.push(Node::Char('x'));
        one.push('x');
    }
    (Node::Cat(v), one)
}

impl Monitor for C15 {
    fn rule(&self) -> &'static str {
        "cases = (pattern with 0..12 groups, input with 0, 1 or several matches, replacement string over {$ \\ 0 1 2 9 a}); replacement strings up to length 3 (quick) / 4 (thorough) over that alphabet are enumerated exhaustively, longer ones are random; oracle: a reference expander ($N with the single-digit / longest-number rule, \\$, \\\\) applied to the spans and group texts that analyze reports for the same regex, so only the expansion logic is judged; invalid replacement => InvalidReplacementString iff there is a match, otherwise the input is returned unchanged. Non-trivial: the replacement contains $ or \\ and the input has a match."
    }
    fn check(&self, c: &Case, obs: &mut Obs) -> Outcome {
        let repl_s = match &c.repl {
            Some(r) => r.clone(),
            None => return Outcome::Inconclusive("no_replacement"),
        };
        let re = match compile_case(c) {
            Ok(r) => r,
            Err(o) => return o,
        };
        let ast = ast_of(c);
        let ng = match &ast {
            Some(a) => a.count_groups(),
            None => return Outcome::Inconclusive("no_ast"),
        };
        let s = &c.input;
        let an = match api(engine::analyze(&re, s), "analyze") {
            Ok(Ok(a)) => a,
            Ok(Err(_)) => return Outcome::Inconclusive("pattern_matches_empty"),
            Err(o) => return o,
        };
        let got = match api(engine::replace_all(&re, s, &repl_s), "replace_all") {
            Ok(g) => g,
            Err(o) => return o,
        };
        let repl: Vec<char> = repl_s.chars().collect();
        let nmatches = an.iter().filter(|e| matches!(e, AEntry::Match(_))).count();
        let mut expected = String::new();
        let mut invalid: Option<String> = None;
        for e in &an {
            match e {
                AEntry::NonMatch(t) => expected.push_str(t),
                AEntry::Match(m) => {
                    let mut gs = vec![];
                    analyze_groups(m, &mut gs);
                    let mut texts = vec![String::new(); ng];
                    for (nr, t) in gs {
                        if nr >= 1 && nr <= ng {
                            texts[nr - 1] = t;
                        }
                    }
                    match expand(&repl, ng, &e.text(), &texts) {
                        Ok(x) => expected.push_str(&x),
                        Err(r) => {
                            invalid = Some(r);
                            break;
                        }
                    }
                }
            }
        }
        let valid_syntax = expand(&repl, ng, "", &vec![String::new(); ng]).is_ok();
        obs.count(if valid_syntax { "replacement_valid" } else { "replacement_invalid" });
        obs.count(match nmatches {
            0 => "input_no_match",
            1 => "input_one_match",
            _ => "input_several_matches",
        });
        if ng > 9 {
            obs.count("more_than_9_groups");
        }
        let exp: Result<String, ErrKind> = if nmatches == 0 {
            Ok(s.clone())
        } else if invalid.is_some() {
            Err(ErrKind::InvalidReplacementString)
        } else {
            Ok(expected)
        };
        if got != exp {
            let kind = match (&got, &exp) {
                (Ok(_), Err(_)) => "invalid_replacement_not_rejected",
                (Err(_), Ok(_)) => "valid_replacement_rejected",
                _ => "replacement_expansion_differs",
            };
            return Outcome::Violated(vec![Finding::new(kind, format!("{:?}", got), format!("{:?}", exp))]);
        }
        // "a group that did not participate contributes nothing": analyze and replace_all read the
        // same capture state, so participation itself is judged against the reference model (as in
        // C03) whenever the replacement refers to a group
        if nmatches > 0 && ng > 0 && valid_syntax && repl_s.contains('$') {
            match super::refcheck::ref_check(c, obs, super::refcheck::Wants { groups: true, ..Default::default() }) {
                Outcome::Violated(f) => return Outcome::Violated(f),
                Outcome::Held => obs.count("group_participation_judged_by_reference"),
                Outcome::Inconclusive(_) => {}
            }
        }
        if nmatches > 0 && (repl_s.contains('$') || repl_s.contains('\\')) {
            obs.nontrivial(c.key());
            if obs.want_sample() && valid_syntax {
                obs.sample(c.to_json().with("groups", J::u(ng as u64)).with("result", J::s(&format!("{:?}", got))));
            }
        }
        Outcome::Held
    }
    fn workload(&self, w: &Work, emit: &mut dyn FnMut(Case)) -> J {
        let mut desc = J::obj();
        let alpha = ['$', '\\', '0', '1', '2', '9', 'a'];
        let maxlen = if w.quick() { 3 } else { 4 };
        let all = all_inputs(&alpha, maxlen);
        let mut rng = w.rng("C15", 1);
        // patterns x inputs fixed per shard; every replacement string is applied to a rotating choice
        let mut pats = vec![];
        for ng in [0usize, 1, 2, 3, 9, 10, 12] {
            for _ in 0..2 {
                let (ast, one) = groups_pattern_with_match(&mut rng, ng);
                let mut inputs = vec![];
                for nm in [0usize, 1, 3] {
                    // build an input with nm matches: the pattern's own letters in order, separated by '-'
                    let mut s = String::from("-");
                    for _ in 0..nm {
                        s.push_str(&one);
                        if rng.chance(1, 2) {
                            s.push('-');
                        }
                    }
                    inputs.push(s);
                }
                pats.push((ast, inputs));
            }
        }
        let mut idx = 0u64;
        let mut mine = 0u64;
        for r in &all {
            idx += 1;
            if !w.mine(idx) {
                continue;
            }
            mine += 1;
            for (k, (ast, inputs)) in pats.iter().enumerate() {
                // every replacement x every group count; inputs rotate
                let inp = &inputs[(idx as usize + k) % inputs.len()];
                let mut c = Case::new(ast, "", inp);
                c.repl = Some(r.clone());
                emit(c);
            }
        }
        desc.set("exhaustive_replacements", J::obj().with("max_len", J::u(maxlen as u64)).with("alphabet", J::s("$ \\ 0 1 2 9 a")).with("strings_total", J::u(idx)).with("strings_this_shard", J::u(mine)).with("patterns_per_string", J::u(pats.len() as u64)).with("exhaustive", J::Bool(true)));
        // random: general patterns with groups, longer replacements
        let n = w.share(200_000, 6_000_000);
        let mut cfg = GenCfg::std(&['a', 'b', 'c', 'a', 'b']);
        cfg.no_nullable_quant = true;
        cfg.backrefs = false;
        for _ in 0..n {
            let ngr = rng.below(13);
            let ast = if rng.chance(1, 8) { gen_capture_loop_shape(&mut rng) } else if rng.chance(1, 3) { groups_pattern(&mut rng, ngr) } else { gen_pattern(&mut rng, &cfg) };
            if ast.nullable() {
                continue;
            }
            let len = rng.below(8);
            let r: String = (0..len).map(|_| *rng.pick(&['$', '\\', '0', '1', '2', '9', 'a', '$', '1', '0', '3'])).collect();
            if rng.chance(1, 6) && ast.count_groups() > 0 {
                // the same pattern anchored to line starts under flag m, several lines: the groups of
                // one line's match must not leak into the replacement of the next line's
                let anchored = Node::Cat(vec![Node::Bol, ast.clone()]).normalize();
                let lines: Vec<String> = (0..2 + rng.below(2)).map(|_| gen_input(&mut rng, &ast, &['a', 'b', 'c', 'x'], 5).replace('\n', "")).collect();
                let mut c = Case::new(&anchored, "m", &lines.join("\n"));
                c.repl = Some(r);
                emit(c);
                continue;
            }
            let inp = gen_input(&mut rng, &ast, &['a', 'b', 'c', 'x'], 10);
            let mut c = Case::new(&ast, "", &inp);
            c.repl = Some(r);
            emit(c);
        }
        desc.set("random_cases_this_shard", J::u(n));
        desc
    }
    fn corpus(&self) -> Vec<Case> {
        let mut v = vec![];
        for (p, s, r) in [("(a)(b)", "ab-ab", "$2$1"), ("(a)", "a", "$10"), ("(a)(b)(c)(a)(b)(c)(a)(b)(c)(a)(b)", "abcabcabcab", "$11$1$100"), ("a", "aa", "\\$\\\\"), ("a", "b", "$"), ("a", "a", "$"), ("a", "a", "\\"), ("a", "a", "\\a"), ("(a)|b", "b", "[$1]"), ("a", "a", "$1"), ("a", "aa", "$0$0")] {
            let mut c = Case::raw(p, "", s);
            c.repl = Some(r.to_string());
            v.push(c);
        }
        v
    }
}
