// C14 (flag x), C17 (XSD dialect), C20 (equivalent spellings) — metamorphic monitors.
use super::metaprops::{common_cfg, is_common};
use super::refcheck::*;
use super::*;
use crate::ast::{ClassExpr, ClassItem};
use crate::engine::{self, Dialect, ErrKind, Fail};
use crate::gen::*;
use crate::refmodel::{Flags, Model};

fn raw(v: &[(&str, &str, &str)]) -> Vec<Case> {
    v.iter().map(|(p, f, s)| Case::raw(p, f, s)).collect()
}

/// everything observable of one (pattern, flags, dialect) on one input
#[derive(Debug, PartialEq, Clone)]
pub struct Behaviour {
    pub compile: Result<(), ErrKind>,
    pub is_match: Option<Result<bool, Fail>>,
    pub replace: Option<Result<Result<String, ErrKind>, Fail>>,
    pub tokens: Option<Result<Result<Vec<String>, ErrKind>, Fail>>,
    pub analyze: Option<Result<Result<Vec<engine::AEntry>, ErrKind>, Fail>>,
}

pub fn behaviour(p: &str, f: &str, d: Dialect, s: &str, repl: &str) -> Result<Behaviour, Outcome> {
    let re = match api(engine::compile(p, f, d), "compile")? {
        Ok(re) => re,
        Err(e) => return Ok(Behaviour { compile: Err(e), is_match: None, replace: None, tokens: None, analyze: None }),
    };
    Ok(Behaviour { compile: Ok(()), is_match: Some(engine::is_match(&re, s)), replace: Some(engine::replace_all(&re, s, repl)), tokens: Some(engine::tokenize(&re, s)), analyze: Some(engine::analyze(&re, s)) })
}

fn has_fuel(b: &Behaviour) -> bool {
    matches!(b.is_match, Some(Err(Fail::Fuel))) || matches!(b.replace, Some(Err(Fail::Fuel))) || matches!(b.tokens, Some(Err(Fail::Fuel))) || matches!(b.analyze, Some(Err(Fail::Fuel)))
}

fn clip(s: String) -> String {
    if s.chars().count() > 400 {
        let t: String = s.chars().take(400).collect();
        format!("{}...", t)
    } else {
        s
    }
}

/// first difference between two behaviours, as (api, a, b)
pub fn diff(a: &Behaviour, b: &Behaviour) -> Option<(&'static str, String, String)> {
    if a.compile.is_ok() != b.compile.is_ok() {
        return Some(("compile", format!("{:?}", a.compile), format!("{:?}", b.compile)));
    }
    if a.is_match != b.is_match {
        return Some(("is_match", format!("{:?}", a.is_match), format!("{:?}", b.is_match)));
    }
    if a.replace != b.replace {
        return Some(("replace_all", clip(format!("{:?}", a.replace)), clip(format!("{:?}", b.replace))));
    }
    if a.tokens != b.tokens {
        return Some(("tokenize", clip(format!("{:?}", a.tokens)), clip(format!("{:?}", b.tokens))));
    }
    if a.analyze != b.analyze {
        return Some(("analyze", clip(format!("{:?}", a.analyze)), clip(format!("{:?}", b.analyze))));
    }
    None
}

// ------------------------------------------------------------------------------------------
pub struct C14;

/// positions (char indices, 0..=len) of `p` that lie outside every character class expression
fn outside_class_positions(p: &[char]) -> Vec<usize> {
    let mut out = vec![];
    let mut depth = 0i32;
    let mut i = 0;
    while i <= p.len() {
        if depth == 0 {
            out.push(i);
        }
        if i == p.len() {
            break;
        }
        match p[i] {
            '\\' => {
                // the escaped character belongs to the escape; a position between the backslash and
                // it is still outside a class when depth == 0 (whitespace is removed before parsing)
                if depth == 0 && i + 1 < p.len() {
                    out.push(i + 1);
                }
                i += 1;
            }
            '[' => depth += 1,
            ']' => depth -= 1,
            _ => {}
        }
        i += 1;
    }
    out.sort();
    out.dedup();
    out
}

/// insert the whitespace characters listed in `aux` into `p`; None if a position is not outside a class
fn apply_insertions(p: &str, aux: &str) -> Option<String> {
    let pc: Vec<char> = p.chars().collect();
    let pos = outside_class_positions(&pc);
    let mut ins: Vec<(usize, char)> = vec![];
    for item in aux.split(';') {
        if item.is_empty() {
            continue;
        }
        let mut it = item.split(',');
        let i: usize = it.next()?.parse().ok()?;
        let ch = char::from_u32(it.next()?.parse().ok()?)?;
        let i = i.min(pc.len());
        if !pos.contains(&i) {
            return None;
        }
        ins.push((i, ch));
    }
    ins.sort_by(|a, b| b.0.cmp(&a.0));
    let mut q = pc;
    for (i, ch) in ins {
        q.insert(i, ch);
    }
    Some(q.into_iter().collect())
}

/// literal blanks outside classes would themselves be stripped by flag x: spell them as [ ]
fn blank_to_class(n: &Node) -> Node {
    match n {
        Node::Char(' ') => Node::Class(ClassExpr { neg: false, items: vec![ClassItem::Ch(' ')], sub: None }),
        Node::Group(b) => Node::Group(Box::new(blank_to_class(b))),
        Node::NcGroup(b) => Node::NcGroup(Box::new(blank_to_class(b))),
        Node::Cat(v) => Node::Cat(v.iter().map(blank_to_class).collect()),
        Node::Alt(v) => Node::Alt(v.iter().map(blank_to_class).collect()),
        Node::Repeat { body, min, max, greedy, spell } => Node::Repeat { body: Box::new(blank_to_class(body)), min: *min, max: *max, greedy: *greedy, spell: *spell },
        o => o.clone(),
    }
}

impl Monitor for C14 {
    fn rule(&self) -> &'static str {
        "cases = (valid pattern P rendered from an AST (10% mutated, possibly invalid), P_ws = P with 1-6 characters from {U+9,U+A,U+D,U+20} inserted at positions outside character classes - between tokens, inside multi-character tokens such as (?: {2,3} \\p{Lu}, after a backslash -, flags, input); metamorphic oracle: (P_ws, flags+x) must behave exactly like (P, flags) in every API and be rejected iff P is; whitespace inside [...] is part of P and must keep matching itself; U+C, U+B, U+A0, U+85, U+2028 inserted as literals must not be removed by x. 'Outside a class' is decided by the harness' own scanner. Non-trivial: >= 1 whitespace character inserted and P has >= 2 AST nodes."
    }
    fn check(&self, c: &Case, obs: &mut Obs) -> Outcome {
        // aux = insertion list "pos,codepoint;..." applied to the pattern text P (positions outside classes)
        let pws = match &c.aux {
            Some(a) => match apply_insertions(&c.pattern, a) {
                Some(p) => p,
                None => return Outcome::Inconclusive("insertion_not_outside_class"),
            },
            None => return Outcome::Inconclusive("no_twin"),
        };
        // the base spelling must itself be free of strippable whitespace outside classes
        if crate::grammar::strip_x(&c.pattern) != c.pattern {
            return Outcome::Inconclusive("base_contains_whitespace_outside_class");
        }
        let fx = format!("{}x", c.flags);
        let base = match behaviour(&c.pattern, &c.flags, c.dialect, &c.input, "[$0]") {
            Ok(b) => b,
            Err(o) => return o,
        };
        let twin = match behaviour(&pws, &fx, c.dialect, &c.input, "[$0]") {
            Ok(b) => b,
            Err(o) => return o,
        };
        if has_fuel(&base) || has_fuel(&twin) {
            return Outcome::Inconclusive("fuel");
        }
        obs.count(if base.compile.is_ok() { "base_accepted" } else { "base_rejected" });
        if let Some((apiname, a, b)) = diff(&twin, &base) {
            return Outcome::Violated(vec![Finding::new(&format!("flag_x_changes_{}", apiname), format!("with whitespace + x: {}", a), format!("original: {}", b))]);
        }
        if pws != c.pattern && base.compile.is_ok() {
            obs.count("whitespace_inserted");
            if c.dialect == Dialect::Xsd {
                obs.count("xsd_dialect_whitespace_inserted");
            }
            obs.nontrivial(c.key());
            if obs.want_sample() && c.pattern.chars().count() > 3 {
                obs.sample(c.to_json().with("is_match", J::s(&format!("{:?}", base.is_match))));
            }
        }
        Outcome::Held
    }
    fn workload(&self, w: &Work, emit: &mut dyn FnMut(Case)) -> J {
        let n = w.share(120_000, 4_000_000);
        let mut rng = w.rng("C14", 1);
        // backslash and brackets as literals: rendered as \\\\ \\[ \\], the stripper's escape tracking is the target
        let mut cfg = GenCfg::std(&['a', 'b', 'A', ' ', '\t', '1', '\u{10400}', '\\', '[', ']', '\\', ' ']);
        cfg.max_top = 5;
        let ws = ['\t', '\n', '\r', ' '];
        let not_ws = ['\u{c}', '\u{b}', '\u{a0}', '\u{85}', '\u{2028}'];
        // the XSD dialect takes flag x as well: patterns of the common subset, rendered for it
        let mut cfg_xsd = cfg.clone();
        cfg_xsd.anchors = false;
        cfg_xsd.backrefs = false;
        cfg_xsd.reluctant = false;
        cfg_xsd.ncgroups = false;
        for k in 0..n {
            let xsd = k % 7 == 3;
            let mut ast = gen_pattern(&mut rng, if xsd { &cfg_xsd } else { &cfg });
            if k % 6 == 5 {
                // a character that is NOT in the list, as a literal: must survive flag x
                let lit = Node::Char(*rng.pick(&not_ws));
                ast = if rng.chance(1, 2) { Node::Cat(vec![ast, lit]) } else { Node::Cat(vec![lit, ast]) };
            }
            let ast = blank_to_class(&ast);
            let mut p = if xsd { ast.render_xsd() } else { ast.render() };
            if xsd && (p.contains("(?:") || !matches!(crate::grammar::parse(&p, true, false), crate::grammar::Parsed::Valid(_))) {
                continue;
            }
            if k % 10 == 9 {
                p = mutate(&mut rng, &p);
                if crate::grammar::strip_x(&p) != p {
                    continue;
                }
            }
            let pc: Vec<char> = p.chars().collect();
            let pos = outside_class_positions(&pc);
            let cnt = 1 + rng.below(6);
            let mut pws = String::new();
            for _ in 0..cnt {
                pws.push_str(&format!("{},{};", *rng.pick(&pos), *rng.pick(&ws) as u32));
            }
            let fl = *rng.pick(&["", "", "i", "s", "m"]);
            for _ in 0..2 {
                let mut inp = gen_input(&mut rng, &ast, &['a', 'b', ' ', '\t', '\n', '\u{c}'], 8);
                if k % 6 == 5 && rng.chance(1, 2) {
                    inp.push(*rng.pick(&not_ws));
                }
                let mut c = Case::raw(&p, fl, &inp);
                c.aux = Some(pws.clone());
                if xsd {
                    c.dialect = Dialect::Xsd;
                }
                emit(c);
            }
        }
        J::obj().with("random_patterns_this_shard", J::u(n))
    }
    fn corpus(&self) -> Vec<Case> {
        let mut v = vec![];
        // (base pattern, insertions "pos,codepoint;...", input)
        for (p, ins, s) in [
            ("a\u{c}b", "", "a\u{c}b"),
            ("a\u{c}b", "1,32;", "ab"),
            ("ab", "1,32;", "ab"),
            ("[ a]b", "5,32;4,9;", " b"),
            ("\\[a", "1,32;", "[a"),
            ("a{2,3}", "2,32;3,32;4,10;5,13;", "aaa"),
            ("\\p{Lu}", "2,32;3,9;5,32;", "A"),
            ("(?:a)", "1,32;2,32;3,32;", "a"),
            ("[\\] ]", "5,32;0,32;", " "),
            ("a\\\\b", "3,32;", "a\\b"),
            ("\\n", "1,32;", "\n"),
            ("(a)\\1", "4,32;", "aa"),
        ] {
            let mut c = Case::raw(p, "", s);
            c.aux = Some(ins.to_string());
            v.push(c);
        }
        v
    }
    fn shrink_text(&self) -> bool {
        true
    }
}

// ------------------------------------------------------------------------------------------
pub struct C17;

fn to_xsd_literal_anchors(n: &Node) -> Node {
    match n {
        Node::Bol => Node::Char('^'),
        Node::Eol => Node::Char('$'),
        Node::Group(b) => Node::Group(Box::new(to_xsd_literal_anchors(b))),
        Node::NcGroup(b) => Node::NcGroup(Box::new(to_xsd_literal_anchors(b))),
        Node::Cat(v) => Node::Cat(v.iter().map(to_xsd_literal_anchors).collect()),
        Node::Alt(v) => Node::Alt(v.iter().map(to_xsd_literal_anchors).collect()),
        Node::Repeat { body, min, max, greedy, spell } => Node::Repeat { body: Box::new(to_xsd_literal_anchors(body)), min: *min, max: *max, greedy: *greedy, spell: *spell },
        o => o.clone(),
    }
}

/// C17 cases carry the XSD dialect so that witness facts are computed on the XSD reading of the text
fn xsd_case(p: &str, f: &str, s: &str) -> Case {
    let mut c = Case::raw(p, f, s);
    c.dialect = Dialect::Xsd;
    c
}

impl Monitor for C17 {
    fn rule(&self) -> &'static str {
        "cases = (pattern text, flags, input) compiled under both Regex::xsd and Regex::xpath; (a) gates: patterns that use a reluctant quantifier, (?:, a back-reference, \\$ or flag q must be rejected by xsd with Error::Syntax / InvalidFlags; (b) patterns the independent recogniser (XSD mode) calls valid must be accepted by xsd; (c) patterns free of XPath-only constructs and of ^ $: every API result must be identical under both dialects; (d) ^ and $ are ordinary characters under xsd (reference model with ^/$ as literals). Non-trivial: AST >= 2 nodes."
    }
    fn check(&self, c: &Case, obs: &mut Obs) -> Outcome {
        // judge the pattern text in XSD mode with the independent recogniser
        let verdict = crate::grammar::parse(&c.pattern, true, c.flags.contains('x'));
        let fl_ok = crate::grammar::flags_valid(&c.flags, true);
        let xsd = match api(engine::compile(&c.pattern, &c.flags, Dialect::Xsd), "compile") {
            Ok(r) => r,
            Err(o) => return o,
        };
        if fl_ok == Some(false) {
            obs.count("flag_gate");
            return match xsd {
                Err(ErrKind::InvalidFlags) => Outcome::Held,
                Err(e) => Outcome::Violated(vec![Finding::new("xsd_wrong_error_for_flags", format!("Err({})", e.name()), "Err(InvalidFlags)")]),
                Ok(_) => Outcome::Violated(vec![Finding::new("xsd_accepts_xpath_extension", "Ok (flags)".to_string(), "Err(InvalidFlags): flag q is XPath only")]),
            };
        }
        match &verdict {
            crate::grammar::Parsed::Invalid(reason) => {
                obs.count("gate_or_invalid");
                return match xsd {
                    Err(ErrKind::Syntax) => Outcome::Held,
                    Err(e) => Outcome::Violated(vec![Finding::new("xsd_wrong_error_kind", format!("Err({})", e.name()), "Err(Syntax)")]),
                    Ok(_) => Outcome::Violated(vec![Finding::new("xsd_accepts_xpath_extension", "Ok".to_string(), format!("Err(Syntax): {}", reason))]),
                };
            }
            crate::grammar::Parsed::Unsure(_) => return Outcome::Inconclusive("grammar_unsure"),
            crate::grammar::Parsed::Valid(_) => {}
        }
        let ast_xsd = match verdict {
            crate::grammar::Parsed::Valid(a) => a,
            _ => unreachable!(),
        };
        let re_x = match xsd {
            Ok(r) => r,
            Err(e) => return Outcome::Violated(vec![Finding::new("xsd_rejects_valid_pattern", format!("Err({})", e.name()), "Ok (valid XSD 1.1 regular expression)")]),
        };
        obs.count("xsd_accepted_valid");
        let s = &c.input;
        // (d) reference model with ^ $ as literals (the XSD parse already has them as Char)
        let input: Vec<char> = s.chars().collect();
        let flags = Flags::parse(&c.flags);
        if !c.flags.contains('q') {
            if let Ok(exp) = super::c01::expected_is_match(&ast_xsd, flags, &input) {
                match api(engine::is_match(&re_x, s), "is_match") {
                    Ok(got) => {
                        if got != exp {
                            let kind = if c.pattern.contains('^') || c.pattern.contains('$') { "xsd_anchor_not_literal" } else if exp { "is_match_false_negative" } else { "is_match_false_positive" };
                            return Outcome::Violated(vec![Finding::new(kind, format!("xsd is_match = {}", got), format!("{}", exp))]);
                        }
                        if c.pattern.contains('^') || c.pattern.contains('$') {
                            obs.count("literal_anchor_checked");
                        }
                    }
                    Err(o) => return o,
                }
            }
        }
        // (c) identical behaviour on the common subset
        if !(c.pattern.contains('^') || c.pattern.contains('$')) {
            let a = match behaviour(&c.pattern, &c.flags, Dialect::Xsd, s, "[$0]") {
                Ok(b) => b,
                Err(o) => return o,
            };
            let b = match behaviour(&c.pattern, &c.flags, Dialect::XPath, s, "[$0]") {
                Ok(b) => b,
                Err(o) => return o,
            };
            if has_fuel(&a) || has_fuel(&b) {
                return Outcome::Inconclusive("fuel");
            }
            if b.compile.is_err() {
                return Outcome::Violated(vec![Finding::new("xpath_rejects_valid_xsd_pattern", format!("{:?}", b.compile), "Ok")]);
            }
            if let Some((apiname, x, y)) = diff(&a, &b) {
                return Outcome::Violated(vec![Finding::new(&format!("dialects_differ_{}", apiname), format!("xsd: {}", x), format!("xpath: {}", y))]);
            }
            obs.count("dialects_compared");
        }
        if ast_xsd.size() >= 2 {
            obs.nontrivial(c.key());
        }
        if obs.want_sample() && ast_xsd.size() >= 3 {
            obs.sample(c.to_json());
        }
        Outcome::Held
    }
    fn workload(&self, w: &Work, emit: &mut dyn FnMut(Case)) -> J {
        let n = w.share(120_000, 4_000_000);
        let mut rng = w.rng("C17", 1);
        let alpha = ['a', 'b', 'A', '1', ' ', '^', '$', '\u{10400}'];
        let common = common_cfg(&alpha);
        let full = GenCfg::std(&['a', 'b', 'A', '1', ' ']);
        for k in 0..n {
            match k % 5 {
                // gates: full XPath patterns that contain at least one XPath-only construct
                0 | 1 => {
                    let mut ast = gen_pattern(&mut rng, &full);
                    for _ in 0..6 {
                        if ast.has_ncgroup() || ast.has_backref() || ast.has_reluctant() {
                            break;
                        }
                        ast = gen_pattern(&mut rng, &full);
                    }
                    let p = ast.render();
                    let inp = gen_input(&mut rng, &ast, &['a', 'b'], 5);
                    emit(xsd_case(&p, *rng.pick(&["", "i", "q", "s"]), &inp));
                }
                // \$ gate and escapes in every position
                2 => {
                    let ast = gen_pattern(&mut rng, &common);
                    let p = ast.render_xsd();
                    let pc: Vec<char> = p.chars().collect();
                    let at = rng.below(pc.len() + 1);
                    let mut q: Vec<char> = pc.clone();
                    for (j, ch) in "\\$".chars().enumerate() {
                        q.insert(at + j, ch);
                    }
                    let inp = gen_input(&mut rng, &ast, &['a', 'b', '$'], 5);
                    emit(xsd_case(&q.into_iter().collect::<String>(), "", &inp));
                }
                // common subset (incl. ^ $ as literals via the alphabet)
                _ => {
                    let ast = gen_pattern(&mut rng, &common);
                    if !is_common(&ast) && !ast.any(&|n| matches!(n, Node::Char('^') | Node::Char('$'))) {
                        continue;
                    }
                    // render with raw ^ and $ (ordinary characters in XSD): esc_lit would escape them
                    let p = ast.render_xsd().replace("\\^", "^").replace("\\$", "$");
                    let fl = *rng.pick(&["", "", "i", "s", "m", "x"]);
                    for _ in 0..2 {
                        let inp = gen_input(&mut rng, &ast, &['a', 'b', '^', '$', '\n'], 7);
                        emit(xsd_case(&p, fl, &inp));
                    }
                }
            }
        }
        // every category / block / name-character escape in the XSD dialect (none of them is an XPath
        // extension): bare, complemented form included, and inside a class
        if w.shard == 0 || !w.quick() {
            for e in super::unicodeprops::all_escapes() {
                emit(xsd_case(&format!("a{}c", e), "", "abc"));
                emit(xsd_case(&format!("[{}x-z]+", e), "i", "xyz"));
            }
        }
        J::obj().with("random_patterns_this_shard", J::u(n))
    }
    fn corpus(&self) -> Vec<Case> {
        let mut v = raw(&[("a*?", "", "a"), ("(?:a)", "", "a"), ("(a)\\1", "", "aa"), ("\\$", "", "$"), ("a", "q", "a"), ("^a$", "", "^a$"), ("^a$", "", "a"), ("a^b", "", "a^b"), ("[a-c]+", "", "abc"), ("a+?", "", "a"), ("a{1,2}?", "", "a"), ("a??", "", "a"), ("$*", "", "$$"), ("(a|b)*c", "", "abc")]);
        for c in v.iter_mut() {
            c.dialect = Dialect::Xsd;
        }
        v
    }
    fn shrink_text(&self) -> bool {
        true
    }
}

// ------------------------------------------------------------------------------------------
pub struct C20;

fn rep(body: Node, min: usize, max: Option<usize>, greedy: bool) -> Node {
    Node::Repeat { body: Box::new(body), min, max, greedy, spell: 0 }
}

/// local rewrites applicable at the root of `n`: (law name, rewritten node)
pub fn rewrites(n: &Node, allow_dup: bool) -> Vec<(&'static str, Node)> {
    let mut out: Vec<(&'static str, Node)> = vec![];
    let nogroups = n.count_groups() == 0;
    // expanding direction, applicable to any term
    if !matches!(n, Node::Empty) {
        out.push(("r = (?:r)", Node::NcGroup(Box::new(n.clone()))));
        out.push(("r = r{1}", Node::Repeat { body: Box::new(n.clone()), min: 1, max: Some(1), greedy: true, spell: 1 }));
        if nogroups && allow_dup {
            out.push(("r = r|r", Node::NcGroup(Box::new(Node::Alt(vec![n.clone(), n.clone()])))));
            out.push(("r = r(?:r){0}", Node::Cat(vec![n.clone(), Node::Repeat { body: Box::new(n.clone()), min: 0, max: Some(0), greedy: true, spell: 1 }])));
        }
    }
    match n {
        Node::NcGroup(b) => out.push(("(?:r) = r", (**b).clone())),
        Node::Group(b) => out.push(("(r) = (?:r) [group not back-referenced]", Node::NcGroup(b.clone()))),
        Node::Char(c) => out.push(("x = [x]", Node::Class(ClassExpr { neg: false, items: vec![ClassItem::Ch(*c)], sub: None }))),
        // single characters and short ranges (a range is the alternation of its members)
        Node::Class(ce) if !ce.neg && ce.sub.is_none() && !ce.items.is_empty() && ce.items.iter().all(|i| matches!(i, ClassItem::Ch(_)) || matches!(i, ClassItem::Range(a, b) if (*b as u32) - (*a as u32) < 6 && (*a as u32 > 0xDFFF || (*b as u32) < 0xD800))) => {
            let mut alts: Vec<Node> = vec![];
            for i in &ce.items {
                match i {
                    ClassItem::Ch(c) => alts.push(Node::Char(*c)),
                    ClassItem::Range(a, b) => alts.extend((*a as u32..=*b as u32).filter_map(char::from_u32).map(Node::Char)),
                    _ => unreachable!(),
                }
            }
            if alts.len() == 1 {
                out.push(("[x] = x", alts[0].clone()));
            } else {
                out.push(("[xy] = (?:x|y)", Node::NcGroup(Box::new(Node::Alt(alts)))));
            }
        }
        Node::Alt(v) if v.len() == 2 && v[0] == v[1] => out.push(("r|r = r", v[0].clone())),
        Node::Alt(v) if v.len() >= 2 && v.iter().all(|x| matches!(x, Node::Char(_))) => {
            let items = v
                .iter()
                .map(|x| match x {
                    Node::Char(c) => ClassItem::Ch(*c),
                    _ => unreachable!(),
                })
                .collect();
            out.push(("(?:x|y) = [xy]", Node::Class(ClassExpr { neg: false, items, sub: None })));
        }
        Node::Repeat { body, min, max, greedy, .. } => {
            let b = (**body).clone();
            let bg = b.count_groups() == 0;
            if *min == 1 && *max == Some(1) {
                out.push(("r{1} = r", b.clone()));
            }
            if *max == Some(0) {
                out.push(("r{0} = empty", Node::Empty));
            }
            if bg && allow_dup {
                if let Some(m) = max {
                    if *m <= 4 && *m >= 1 && !(*min == 1 && *m == 1) {
                        // r{n,m} = r^n (?:r)?^(m-n)   (the optional copies are nested so that ordered choice is kept)
                        let mut v: Vec<Node> = (0..*min).map(|_| b.clone()).collect();
                        let mut tail: Option<Node> = None;
                        for _ in 0..(m - min) {
                            let inner = match tail.take() {
                                None => b.clone(),
                                Some(t) => Node::Cat(vec![b.clone(), t]),
                            };
                            tail = Some(rep(Node::NcGroup(Box::new(inner)), 0, Some(1), *greedy));
                        }
                        // the flat spelling of the property text: n copies of r followed by m-n copies of (?:r)?
                        let mut flat = v.clone();
                        for _ in 0..(m - min) {
                            flat.push(rep(Node::NcGroup(Box::new(b.clone())), 0, Some(1), *greedy));
                        }
                        out.push(("r{n,m} = r^n (?:r)?^(m-n)", if flat.len() == 1 { flat.pop().unwrap() } else { Node::Cat(flat) }));
                        if let Some(t) = tail {
                            v.push(t);
                        }
                        if !v.is_empty() {
                            out.push(("r{n,m} = r^n (?:r(?:r...)?)? [nested]", if v.len() == 1 { v.pop().unwrap() } else { Node::Cat(v) }));
                        }
                    }
                } else if *min <= 3 {
                    // r{n,} = r^n r*   ;   r+ = r r*
                    let mut v: Vec<Node> = (0..*min).map(|_| b.clone()).collect();
                    v.push(rep(b.clone(), 0, None, *greedy));
                    if *min >= 1 {
                        out.push((if *min == 1 { "r+ = r r*" } else { "r{n,} = r^n r*" }, Node::Cat(v)));
                    }
                }
            }
        }
        Node::Cat(v) if v.len() == 2 && allow_dup => {
            // (?:r|s)t = rt|st
            if let Node::NcGroup(g) = &v[0] {
                if let Node::Alt(alts) = &**g {
                    if v[1].count_groups() == 0 {
                        let t = v[1].clone();
                        out.push(("(?:r|s)t = rt|st", Node::NcGroup(Box::new(Node::Alt(alts.iter().map(|a| Node::Cat(vec![a.clone(), t.clone()])).collect())))));
                    }
                }
            }
        }
        _ => {}
    }
    out
}

/// apply the law named in `aux` ("idx:choice") to the AST; None if not applicable there
pub fn apply_law(ast: &Node, aux: &str) -> Option<(String, Node)> {
    let mut it = aux.split(':');
    let idx: usize = it.next()?.parse().ok()?;
    let choice: usize = it.next()?.parse().ok()?;
    let size = ast.size();
    let idx = idx % size;
    let sub = ast.at(idx)?;
    let has_br = ast.has_backref();
    let mut rw = rewrites(sub, true);
    if has_br {
        // adding or removing capturing groups would renumber back-references
        rw.retain(|(name, _)| !name.starts_with("(r) = (?:r)"));
    }
    if rw.is_empty() {
        return None;
    }
    let (name, new) = rw[choice % rw.len()].clone();
    let mut i = idx as isize;
    let out = ast.map_at(&mut i, &|_| new.clone());
    if !out.valid_backrefs() {
        return None;
    }
    Some((name.to_string(), out))
}

pub fn twin_of(c: &Case) -> Option<(String, Node)> {
    match (&c.ast, &c.aux) {
        (Some(a), Some(aux)) => apply_law(a, aux),
        _ => None,
    }
}

impl Monitor for C20 {
    fn rule(&self) -> &'static str {
        "cases = (generated pattern P, a law of regular-expression algebra applicable at a random position, P' = the rewritten spelling, flags, input); laws: r=(?:r), r{1}=r, r{n,m}=r^n(?:r)?^(m-n) (flat and nested), r{n,}=r^n r*, r+=rr*, r{0}=empty, [xy]=(?:x|y), x=[x], r|r=r, (?:r|s)t=rt|st, capturing->non-capturing (no back-references); both directions. The reference model is evaluated on both spellings first: an instance on which the model disagrees with itself is dropped and counted (guards the law application). Engine: is_match must agree; match spans must agree whenever the model's ordered-choice spans of the two spellings agree and no quantifier has a nullable body. Non-trivial: P has >= 2 nodes and the input is non-empty; distinct by (P, law position, flags, input)."
    }
    fn annotate(&self, c: &mut Case) {
        if let Some((_, t)) = twin_of(c) {
            c.ast2 = Some(t);
        }
    }
    fn check(&self, c: &Case, obs: &mut Obs) -> Outcome {
        let (p1, law, p2) = if c.ast.is_some() {
            match twin_of(c) {
                Some((law, t)) => (c.ast.clone().unwrap(), law, t),
                None => return Outcome::Inconclusive("law_not_applicable"),
            }
        } else {
            // replay from a recorded witness: both spellings come from the file
            match (ast_of(c), &c.ast2) {
                (Some(a), Some(b)) => (a, "recorded".to_string(), b.clone()),
                _ => return Outcome::Inconclusive("no_ast"),
            }
        };
        let flags = Flags::parse(&c.flags);
        let input: Vec<char> = c.input.chars().collect();
        // the model must agree with itself on this law instance
        let (m1, m2) = match (super::c01::expected_is_match(&p1, flags, &input), super::c01::expected_is_match(&p2, flags, &input)) {
            (Ok(a), Ok(b)) => (a, b),
            _ => return Outcome::Inconclusive("oracle_budget_or_disputed"),
        };
        if m1 != m2 {
            obs.count("law_instance_dropped_model_disagrees");
            return Outcome::Inconclusive("law_instance_unsound_per_model");
        }
        let t1 = p1.render();
        let t2 = p2.render();
        let r1 = match api(engine::compile(&t1, &c.flags, c.dialect), "compile") {
            Ok(r) => r,
            Err(o) => return o,
        };
        let r2 = match api(engine::compile(&t2, &c.flags, c.dialect), "compile") {
            Ok(r) => r,
            Err(o) => return o,
        };
        let (r1, r2) = match (r1, r2) {
            (Ok(a), Ok(b)) => (a, b),
            (a, b) => {
                if a.is_ok() != b.is_ok() {
                    return Outcome::Violated(vec![Finding::new("spelling_changes_acceptance", format!("{:?}: {}", t2, if b.is_ok() { "Ok" } else { "Err" }), format!("{:?}: {}", t1, if a.is_ok() { "Ok" } else { "Err" }))]);
                }
                return Outcome::Inconclusive("rejected_by_compiler");
            }
        };
        obs.count(&format!("law[{}]", law));
        let g1 = match api(engine::is_match(&r1, &c.input), "is_match") {
            Ok(b) => b,
            Err(o) => return o,
        };
        let g2 = match api(engine::is_match(&r2, &c.input), "is_match") {
            Ok(b) => b,
            Err(o) => return o,
        };
        if g1 != g2 {
            return Outcome::Violated(vec![Finding::new("spelling_changes_is_match", format!("{:?}: {} / {:?}: {}", t1, g1, t2, g2), format!("the same answer for both spellings (law {}; reference: {})", law, m1))]);
        }
        // spans, when the law preserves ordered choice on this instance
        let strict = !p1.has_quantified_nullable() && !p2.has_quantified_nullable();
        if strict && !input.is_empty() {
            let mo1 = Model::new(&p1, flags);
            let mo2 = Model::new(&p2, flags);
            if let (Ok(Ok(s1)), Ok(Ok(s2))) = (mo1.scan_ordered(&input), mo2.scan_ordered(&input)) {
                let sp1: Vec<(usize, usize)> = s1.iter().map(|x| (x.0, x.1)).collect();
                let sp2: Vec<(usize, usize)> = s2.iter().map(|x| (x.0, x.1)).collect();
                if sp1 == sp2 {
                    if let (Ok(Ok(e1)), Ok(Ok(e2))) = (engine::spans_via_replace(&r1, &c.input), engine::spans_via_replace(&r2, &c.input)) {
                        obs.count("spans_compared");
                        if e1 != e2 {
                            return Outcome::Violated(vec![Finding::new("spelling_changes_spans", format!("{:?}: {:?} / {:?}: {:?}", t1, e1, t2, e2), format!("the same spans for both spellings (law {}; reference {:?})", law, sp1))]);
                        }
                    }
                } else {
                    obs.count("spans_not_compared_law_changes_ordered_choice");
                }
            }
        }
        if p1.size() >= 2 && !input.is_empty() {
            obs.nontrivial(c.key());
        }
        if obs.want_sample() && p1.size() >= 3 && !input.is_empty() {
            obs.sample(c.to_json().with("law", J::s(&law)).with("pattern2", J::s(&t2)).with("is_match_both", J::Bool(g1)));
        }
        Outcome::Held
    }
    fn workload(&self, w: &Work, emit: &mut dyn FnMut(Case)) -> J {
        let n = w.share(120_000, 4_000_000);
        let mut rng = w.rng("C20", 1);
        // letters beyond the first hundred code points as well: the optimiser's disjointness test
        // gives up after scanning that many characters of a class
        let mut cfg = GenCfg::std(&['a', 'b', 'a', 'b', 'A', '\n', 'x', '\u{e9}']);
        cfg.props = false;
        for k in 0..n {
            let ast = if k % 16 == 7 {
                // a bounded loop that may run zero times over alternatives of different lengths: only
                // the path that re-does an earlier iteration and then uses all of them matches
                let word = |rng: &mut Rng, n: usize| -> Node { Node::Cat((0..n).map(|_| Node::Char(*rng.pick(&['a', 'b']))).collect()).normalize() };
                let mut alts = vec![word(&mut rng, 1), word(&mut rng, 2)];
                if rng.chance(1, 3) {
                    alts.push(word(&mut rng, 1));
                }
                let m = 2 + rng.below(2);
                let body = Node::NcGroup(Box::new(Node::Alt(alts)));
                let mut v = vec![Node::Repeat { body: Box::new(body), min: 0, max: Some(m), greedy: true, spell: 0 }, Node::Char(*rng.pick(&['x', 'a', 'b']))];
                if rng.chance(1, 2) {
                    v.insert(0, Node::Bol);
                    v.push(Node::Eol);
                }
                Node::Cat(v)
            } else if k % 4 <= 1 {
                gen_shortcut(&mut rng, &cfg)
            } else {
                gen_pattern(&mut rng, &cfg)
            };
            let size = ast.size();
            let fl = FLAG_SUBSETS[rng.below(FLAG_SUBSETS.len())];
            for _ in 0..2 {
                // bias positions towards quantifier nodes (the lowering code is the target)
                let mut idx = rng.below(size);
                for _ in 0..3 {
                    if matches!(ast.at(idx), Some(Node::Repeat { .. })) {
                        break;
                    }
                    idx = rng.below(size);
                }
                let aux = format!("{}:{}", idx, rng.below(16));
                for _ in 0..2 {
                    let inp = gen_input(&mut rng, &ast, &['a', 'b', '\n', 'A', 'x', '\u{e9}'], 7);
                    let mut c = Case::new(&ast, fl, &inp);
                    c.aux = Some(aux.clone());
                    emit(c);
                }
            }
        }
        J::obj().with("random_patterns_this_shard", J::u(n))
    }
    fn corpus(&self) -> Vec<Case> {
        // (pattern AST built by hand, law position) for the divergences named in the property text
        let a_opt = rep(Node::NcGroup(Box::new(rep(Node::Char('a'), 0, Some(1), true))), 2, Some(2), true);
        let p = Node::Cat(vec![Node::Bol, a_opt, Node::Eol]);
        let mut v = vec![];
        for inp in ["aaa", "aa", "a", ""] {
            let mut c = Case::new(&p, "", inp);
            c.aux = Some("2:3".to_string());
            v.push(c);
        }
        v
    }
}
