// One module per property: events in, verdict out.
use crate::ast::Node;
use crate::core::*;
use crate::engine::Dialect;
use crate::gen::Rng;
use crate::grammar;
use crate::json::J;

pub mod c01;
pub mod c08;
pub mod c18;
pub mod hostileprops;
pub mod unicodeprops;
pub mod metaprops;
pub mod metaprops2;
pub mod refcheck;
pub mod refprops;

#[derive(Clone, Copy, PartialEq, Eq, Debug)]
pub enum Tier {
    Quick,
    Thorough,
}

pub struct Work {
    pub tier: Tier,
    pub seed: u64,
    pub shard: usize,
    pub nshards: usize,
    /// multiplies every random-workload size (for sanitizer lanes: 0.001 etc.)
    pub scale: f64,
}

impl Work {
    pub fn rng(&self, prop: &str, job: u64) -> Rng {
        Rng::derive(self.seed, &[crate::gen::hash_str(prop), self.tier as u64, self.shard as u64, job])
    }
    /// this shard's share of a random workload of `total` cases (quick, thorough)
    pub fn share(&self, quick: u64, thorough: u64) -> u64 {
        let total = if self.tier == Tier::Quick { quick } else { thorough };
        let t = (total as f64 * self.scale) as u64;
        (t / self.nshards as u64).max(1)
    }
    /// does exhaustive item `idx` belong to this shard
    pub fn mine(&self, idx: u64) -> bool {
        idx % self.nshards as u64 == self.shard as u64
    }
    pub fn quick(&self) -> bool {
        self.tier == Tier::Quick
    }
}

pub trait Monitor {
    /// decide one case; must be deterministic and side-effect free apart from `obs`
    fn check(&self, c: &Case, obs: &mut Obs) -> Outcome;
    /// emit this shard's cases; returns a description of the strata (incl. exhaustive bounds)
    fn workload(&self, w: &Work, emit: &mut dyn FnMut(Case)) -> J;
    /// how cases are generated and what makes one non-trivial / distinct
    fn rule(&self) -> &'static str;
    /// fixed, seed-independent regression corpus
    fn corpus(&self) -> Vec<Case> {
        vec![]
    }
    /// shrink on the pattern text rather than the AST
    fn shrink_text(&self) -> bool {
        false
    }
    /// narrow a failing case before minimisation (e.g. to the one character that failed)
    fn focus(&self, c: &Case, _f: &Finding) -> Case {
        c.clone()
    }
    /// attach derived data (e.g. the metamorphic twin) to a minimised witness
    fn annotate(&self, _c: &mut Case) {}
}

pub fn monitor(id: &str) -> Option<Box<dyn Monitor>> {
    Some(match id {
        "C01" => Box::new(c01::C01),
        "C08" => Box::new(c08::C08),
        "C04" => Box::new(metaprops::C04),
        "C13" => Box::new(metaprops::C13),
        "C15" => Box::new(metaprops::C15),
        "C16" => Box::new(metaprops::C16),
        "C14" => Box::new(metaprops2::C14),
        "C17" => Box::new(metaprops2::C17),
        "C20" => Box::new(metaprops2::C20),
        "C09" => Box::new(unicodeprops::C09),
        "C10" => Box::new(unicodeprops::C10),
        "C05" => Box::new(hostileprops::C05),
        "C06" => Box::new(hostileprops::C06),
        "C07" => Box::new(hostileprops::C07),
        "C18" => Box::new(c18::C18),
        "C02" => Box::new(refprops::C02),
        "C03" => Box::new(refprops::C03),
        "C11" => Box::new(refprops::C11),
        "C12" => Box::new(refprops::C12),
        "C19" => Box::new(refprops::C19),
        _ => return None,
    })
}

/// AST of a case: the generator's AST, or the independent parser's reading of the pattern text
pub fn ast_of(c: &Case) -> Option<Node> {
    if let Some(a) = &c.ast {
        return Some(a.clone());
    }
    if c.flags.contains('q') {
        return None;
    }
    match grammar::parse(&c.pattern, c.dialect == Dialect::Xsd, c.flags.contains('x')) {
        grammar::Parsed::Valid(n) => Some(n),
        _ => None,
    }
}

pub const FLAG_SUBSETS: &[&str] = &["", "i", "m", "s", "im", "is", "ms", "ims"];
