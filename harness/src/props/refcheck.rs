// Shared reference-model monitor: compares is_match, match spans and captured groups of the
// engine with the reference semantics. Used by C01, C02, C03, C11, C12, C19.
use super::*;
use crate::engine::{self, AEntry, Fail, MEntry};
use crate::refmodel::{Env, Flags, Model};

#[derive(Clone, Copy, Default)]
pub struct Wants {
    pub is_match: bool,
    pub spans: bool,
    pub groups: bool,
    pub analyze: bool,
}

/// map an abnormal completion to an outcome: fuel = inconclusive, anything else = violation
pub fn api<T>(r: Result<T, Fail>, what: &str) -> Result<T, Outcome> {
    match r {
        Ok(v) => Ok(v),
        Err(Fail::Fuel) => Err(Outcome::Inconclusive("fuel")),
        Err(f @ Fail::TooManyItems(_)) => Err(Outcome::Violated(vec![Finding::new(&format!("iterator_exceeds_bound_{}", what), f.describe(), "at most len+1 tokens / 2*len+1 analyze entries")])),
        Err(f @ Fail::NotFused) => Err(Outcome::Violated(vec![Finding::new(&format!("iterator_not_fused_{}", what), f.describe(), "None after the first None")])),
        Err(f) => Err(Outcome::Violated(vec![Finding::new(&format!("panic_{}", what), f.describe(), "the call returns Ok or a classified Err")])),
    }
}

pub fn compile_case(c: &Case) -> Result<regexml::Regex, Outcome> {
    match api(engine::compile(&c.pattern, &c.flags, c.dialect), "compile")? {
        Ok(re) => Ok(re),
        Err(_) => Err(Outcome::Inconclusive("rejected_by_compiler")),
    }
}

fn text(s: &[char], sp: Option<(usize, usize)>) -> String {
    match sp {
        Some((a, b)) => s[a..b].iter().collect(),
        None => String::new(),
    }
}

fn env_texts(s: &[char], env: &Env, ng: usize) -> Vec<String> {
    (1..=ng).map(|g| text(s, env.get(g).copied().flatten())).collect()
}

/// spans of the Match entries of an analyze result (code-point offsets)
pub fn analyze_spans(v: &[AEntry]) -> Vec<(usize, usize)> {
    let mut pos = 0;
    let mut out = vec![];
    for e in v {
        let l = e.text().chars().count();
        if let AEntry::Match(_) = e {
            out.push((pos, pos + l));
        }
        pos += l;
    }
    out
}

/// spans implied by tokenize: gaps between consecutive tokens are not observable from the tokens
/// alone, so this returns the token list's total length check only (C04 does the cross-API check)
pub fn group_parent_table(ast: &Node) -> Vec<usize> {
    // parent[g] = number of the closest enclosing capturing group (0 = none)
    fn walk(n: &Node, cur: usize, next: &mut usize, out: &mut Vec<usize>) {
        match n {
            Node::Group(b) => {
                let my = *next;
                *next += 1;
                out.push(cur);
                debug_assert_eq!(out.len() - 1, my);
                walk(b, my, next, out);
            }
            _ => {
                for c in n.children() {
                    walk(c, cur, next, out)
                }
            }
        }
    }
    let mut out = vec![0];
    let mut next = 1;
    walk(ast, 0, &mut next, &mut out);
    out
}

/// structural checks on the Match entries of analyze (oracle-free): returns a description of the
/// first problem
pub fn analyze_structure(ast: &Node, input: &[char], entries: &[AEntry]) -> Option<String> {
    analyze_structure_at(ast, input, entries).map(|x| x.0)
}

/// as analyze_structure, with the index of the Match entry the problem was found in
pub fn analyze_structure_at(ast: &Node, input: &[char], entries: &[AEntry]) -> Option<(String, usize)> {
    let mut mi = 0usize;
    let mut upto = 0usize;
    // re-run the check on growing prefixes of the entry list to locate the entry (cheap: entry lists are short)
    let whole = analyze_structure_inner(ast, input, entries)?;
    for (k, e) in entries.iter().enumerate() {
        if matches!(e, AEntry::Match(_)) {
            let prefix = &entries[..=k];
            let covered: usize = prefix.iter().map(|x| x.text().chars().count()).sum();
            if analyze_structure_inner(ast, &input[..covered.min(input.len())], prefix).is_some() {
                return Some((whole, mi));
            }
            mi += 1;
        }
        upto = k;
    }
    let _ = upto;
    Some((whole, mi.saturating_sub(1)))
}

fn analyze_structure_inner(ast: &Node, input: &[char], entries: &[AEntry]) -> Option<String> {
    let parents = group_parent_table(ast);
    let ng = parents.len() - 1;
    let mut pos = 0usize;
    for e in entries {
        let t = e.text();
        let l = t.chars().count();
        let expect: String = input.get(pos..pos + l).map(|x| x.iter().collect()).unwrap_or_default();
        if t != expect {
            return Some(format!("entry text {:?} is not the input text {:?} at offset {}", t, expect, pos));
        }
        if let AEntry::Match(m) = e {
            // groups: numbers in range, each at most once, nested according to the pattern
            let mut seen = vec![false; ng + 1];
            fn walk(v: &[MEntry], parent: usize, parents: &[usize], seen: &mut Vec<bool>, last: &mut usize) -> Option<String> {
                for x in v {
                    if let MEntry::Group(nr, inner) = x {
                        if *nr == 0 || *nr >= parents.len() {
                            return Some(format!("group number {} out of range", nr));
                        }
                        if seen[*nr] {
                            return Some(format!("group {} reported twice", nr));
                        }
                        seen[*nr] = true;
                        // the reported parent must be an ancestor-or-self chain match: the closest
                        // *reported* enclosing group must be an ancestor of nr in the pattern
                        let mut a = parents[*nr];
                        let mut ok = parent == 0;
                        while !ok {
                            if a == parent {
                                ok = true;
                                break;
                            }
                            if a == 0 {
                                break;
                            }
                            a = parents[a];
                        }
                        if !ok {
                            let mut t = String::new();
                            engine::mentry_text(inner, &mut t);
                            return Some(format!("{} {} reported inside group {}, which does not enclose it in the pattern", if t.is_empty() { "empty group" } else { "group" }, nr, parent));
                        }
                        if *nr <= *last && parent == 0 && false {
                            return Some("group numbers not increasing".to_string());
                        }
                        *last = *nr;
                        if let Some(p) = walk(inner, *nr, parents, seen, last) {
                            return Some(p);
                        }
                    }
                }
                None
            }
            let mut last = 0;
            if let Some(p) = walk(m, 0, &parents, &mut seen, &mut last) {
                return Some(p);
            }
        }
        pos += l;
    }
    if pos != input.len() {
        return Some(format!("entries cover {} of {} characters", pos, input.len()));
    }
    None
}

/// (nr, text, present) of every group entry of a match, flattened
pub fn analyze_groups(m: &[MEntry], out: &mut Vec<(usize, String)>) {
    for x in m {
        if let MEntry::Group(nr, inner) = x {
            let mut t = String::new();
            engine::mentry_text(inner, &mut t);
            out.push((*nr, t));
            analyze_groups(inner, out);
        }
    }
}

pub fn ref_check(c: &Case, obs: &mut Obs, w: Wants) -> Outcome {
    match ref_check_inner(c, obs, w) {
        Ok(o) => o,
        Err(o) => o,
    }
}

fn ref_check_inner(c: &Case, obs: &mut Obs, w: Wants) -> Result<Outcome, Outcome> {
    let ast = match ast_of(c) {
        Some(a) => a,
        None => return Ok(Outcome::Inconclusive("no_ast")),
    };
    let flags = Flags::parse(&c.flags);
    let input: Vec<char> = c.input.chars().collect();
    let re = compile_case(c)?;
    let ng = ast.count_groups();
    let exh = |_| Outcome::Inconclusive("oracle_budget");
    let readings = Model::readings(&ast, flags);
    let model = &readings[0];
    let mut nontrivial = ast.size() >= 2 && !input.is_empty();

    // ---- is_match ----
    if w.is_match {
        let expected = super::c01::expected_is_match(&ast, flags, &input).map_err(Outcome::Inconclusive)?;
        let got = api(engine::is_match(&re, &c.input), "is_match")?;
        obs.count(if expected { "oracle_true" } else { "oracle_false" });
        if obs.want_sample() && ast.size() >= 3 && !input.is_empty() {
            obs.sample(c.to_json().with("engine_is_match", J::Bool(got)).with("oracle_is_match", J::Bool(expected)));
        }
        if got != expected {
            let kind = if expected { "is_match_false_negative" } else { "is_match_false_positive" };
            return Ok(Outcome::Violated(vec![Finding::new(kind, format!("{}", got), format!("{}", expected))]));
        }
    }

    if !(w.spans || w.groups || w.analyze) {
        if nontrivial {
            obs.nontrivial(c.key());
        }
        return Ok(Outcome::Held);
    }

    // the scan APIs need a pattern that does not match the empty string (C16 judges that boundary)
    let nullable = model.nullable_dynamic().map_err(exh)?;
    if nullable {
        return Ok(Outcome::Inconclusive("pattern_matches_empty"));
    }
    let spans = match api(engine::spans_via_replace(&re, &c.input), "replace_all")? {
        Ok(s) => s,
        Err(e) => {
            // C16's business (nullability misjudged); here it only means we cannot observe spans
            let _ = e;
            return Ok(Outcome::Inconclusive("engine_reports_matches_empty"));
        }
    };
    let strict = !ast.has_quantified_nullable();
    obs.count(if strict { "strict_domain" } else { "weak_domain" });

    // reference scans under each capture reading
    let mut ref_scans: Vec<Vec<(usize, usize, Env)>> = vec![];
    for m in &readings {
        match m.scan_ordered(&input).map_err(exh)? {
            Ok(v) => ref_scans.push(v),
            Err(_) => return Ok(Outcome::Inconclusive("reference_selects_empty_match")),
        }
    }
    let ref_spans: Vec<Vec<(usize, usize)>> = ref_scans.iter().map(|v| v.iter().map(|x| (x.0, x.1)).collect()).collect();
    if ref_spans.iter().any(|s| *s != ref_spans[0]) {
        return Ok(Outcome::Inconclusive("capture_semantics_disputed"));
    }
    if ref_spans[0].is_empty() {
        nontrivial = false;
    } else {
        obs.count("cases_with_matches");
        if ref_spans[0].len() > 1 {
            obs.count("cases_with_several_matches");
            if c.flags.contains('m') && c.pattern.starts_with('^') {
                obs.count("line_anchored_several_matches");
            }
        }
    }

    if w.spans {
        // structural clauses hold for every pattern
        let mut prev = 0;
        for (s, e) in &spans {
            if *s < prev || e < s || *e > input.len() {
                return Ok(Outcome::Violated(vec![Finding::new("spans_not_ordered", format!("{:?}", spans), "increasing, non-overlapping spans")]));
            }
            if e == s {
                return Ok(Outcome::Violated(vec![Finding::new("zero_length_match_reported", format!("{:?}", spans), "no zero-length match for a pattern that does not match the empty string")]));
            }
            prev = *e;
        }
        if strict {
            if spans != ref_spans[0] {
                return Ok(Outcome::Violated(vec![Finding::new("spans_differ_ordered_choice", format!("{:?}", spans), format!("{:?}", ref_spans[0]))]));
            }
        } else {
            // weak clause: leftmost start, span in the relation
            let mut from = 0;
            for (s, e) in &spans {
                let lm = model.leftmost_start(&input, from).map_err(exh)?;
                if lm != Some(*s) {
                    return Ok(Outcome::Violated(vec![Finding::new("span_not_leftmost", format!("match reported at {} (all spans {:?})", s, spans), format!("leftmost start at or after {} is {:?}", from, lm))]));
                }
                let mut in_rel = false;
                for m in &readings {
                    if m.all_ends(&input, *s).map_err(exh)?.iter().any(|(e2, _)| e2 == e) {
                        in_rel = true;
                    }
                }
                if !in_rel {
                    return Ok(Outcome::Violated(vec![Finding::new("span_not_in_relation", format!("({},{})", s, e), "a member of the match relation")]));
                }
                from = *e;
            }
            if from < input.len() {
                if let Some(st) = model.leftmost_start(&input, from).map_err(exh)? {
                    // a further non-empty match exists at st?
                    let ends = model.all_ends(&input, st).map_err(exh)?;
                    if ends.iter().any(|(e, _)| *e > st) && st < input.len() {
                        return Ok(Outcome::Violated(vec![Finding::new("match_missed", format!("spans {:?}", spans), format!("a further match starting at {}", st))]));
                    }
                }
            }
        }
        // the same spans through analyze
        if let Ok(entries) = api(engine::analyze(&re, &c.input), "analyze")? {
            let asp = analyze_spans(&entries);
            if asp != spans {
                return Ok(Outcome::Violated(vec![Finding::new("spans_differ_between_replace_and_analyze", format!("analyze {:?}", asp), format!("replace {:?}", spans))]));
            }
        }
    }

    if (w.groups || w.analyze) && ng > 0 {
        let got = match api(engine::groups_via_replace(&re, &c.input, ng), "replace_all")? {
            Ok(g) => g,
            Err(_) => return Ok(Outcome::Inconclusive("engine_reports_matches_empty")),
        };
        if got.len() != spans.len() {
            return Ok(Outcome::Violated(vec![Finding::new("group_probe_match_count", format!("{} matches", got.len()), format!("{} matches", spans.len()))]));
        }
        // oracle-free first: analyze and replace read the same capture state, so their group texts
        // must agree whatever the capture semantics is
        let mut analyze_entries = None;
        if w.analyze {
            if let Ok(entries) = api(engine::analyze(&re, &c.input), "analyze")? {
                let mut mi = 0;
                for e in &entries {
                    if let AEntry::Match(m) = e {
                        let mut gs = vec![];
                        analyze_groups(m, &mut gs);
                        let rep = &got[mi.min(got.len() - 1)];
                        for (nr, t) in &gs {
                            if *nr <= ng && rep[*nr - 1] != *t {
                                return Ok(Outcome::Violated(vec![Finding::new("analyze_group_text_differs_from_replace", format!("analyze group {} = {:?}", nr, t), format!("replace ${} = {:?}", nr, rep[*nr - 1]))]));
                            }
                        }
                        for g in 1..=ng {
                            if !gs.iter().any(|(nr, _)| *nr == g) && !rep[g - 1].is_empty() {
                                return Ok(Outcome::Violated(vec![Finding::new("analyze_group_missing", format!("group {} absent from analyze", g), format!("replace ${} = {:?}", g, rep[g - 1]))]));
                            }
                        }
                        mi += 1;
                    }
                }
                obs.count("analyze_vs_replace_consistency_checked");
                analyze_entries = Some(entries);
            }
        }
        let mut groups_judged = false;
        if w.groups {
            if strict && spans == ref_spans[0] {
                // strict: captured texts of the ordered-choice path; both readings must agree
                let exp: Vec<Vec<Vec<String>>> = ref_scans.iter().map(|v| v.iter().map(|x| env_texts(&input, &x.2, ng)).collect()).collect();
                if exp.iter().any(|e| *e != exp[0]) {
                    obs.count("groups_capture_semantics_disputed");
                } else {
                    groups_judged = true;
                    if got != exp[0] {
                        return Ok(Outcome::Violated(vec![Finding::new("captured_groups_differ", format!("{:?}", got), format!("{:?}", exp[0]))]));
                    }
                }
            } else if !strict {
                // weak: some path of the relation with this span has these group texts
                for ((s, e), g) in spans.iter().zip(got.iter()) {
                    let mut ok = false;
                    for m in &readings {
                        for (e2, env) in m.all_ends(&input, *s).map_err(exh)? {
                            if e2 == *e && env_texts(&input, &env, ng) == *g {
                                ok = true;
                            }
                        }
                    }
                    if !ok {
                        return Ok(Outcome::Violated(vec![Finding::new("captured_groups_not_on_any_path", format!("match ({},{}) groups {:?}", s, e, g), "group texts of some match path with this span")]));
                    }
                }
                groups_judged = true;
            }
            if groups_judged {
                obs.count("groups_judged");
                if got.iter().any(|g| g.iter().any(|t| !t.is_empty())) {
                    obs.count("groups_nonempty_capture_seen");
                }
            }
        }
        if w.analyze {
            if let Some(entries) = analyze_entries {
                if let Some((p, at)) = analyze_structure_at(&ast, &input, &entries) {
                    // a misplaced *empty* group is the signature of a recorded finding about groups that
                    // took no part in the match; if the reference says this group did take part (with
                    // an empty capture), it is something else
                    let mut kind = "analyze_structure";
                    if let Some(rest) = p.strip_prefix("empty group ") {
                        let g: usize = rest.split(' ').next().and_then(|x| x.parse().ok()).unwrap_or(0);
                        if strict && readings.len() == 1 && at < ref_scans[0].len() && g >= 1 {
                            if let Some(Some(_)) = ref_scans[0][at].2.get(g) {
                                kind = "analyze_structure_of_participating_group";
                            }
                        }
                    }
                    return Ok(Outcome::Violated(vec![Finding::new(kind, p, "well-nested group entries that concatenate to the input")]));
                }
                // analyze's group texts agree with replace's $N; presence/absence follows the reference
                let mut mi = 0;
                for e in &entries {
                    if let AEntry::Match(m) = e {
                        let mut gs = vec![];
                        analyze_groups(m, &mut gs);
                        if strict && groups_judged && mi < ref_scans[0].len() && readings.len() == 1 {
                            // participation: absent iff the group did not participate on the reference path
                            let env = &ref_scans[0][mi].2;
                            for g in 1..=ng {
                                let present = gs.iter().any(|(nr, _)| *nr == g);
                                let participated = env.get(g).copied().flatten().is_some();
                                if present != participated {
                                    return Ok(Outcome::Violated(vec![Finding::new(
                                        "analyze_group_presence",
                                        format!("{} {}", if present { "empty group" } else { "group" }, if present { format!("{} present", g) } else { format!("{} absent", g) }),
                                        format!("group {} {}", g, if participated { "participated (entry expected, possibly empty)" } else { "did not participate (no entry expected)" }),
                                    )]));
                                }
                            }
                            obs.count("analyze_presence_judged");
                        }
                        mi += 1;
                    }
                }
            }
        }
    }
    if nontrivial {
        obs.nontrivial(c.key());
    }
    if obs.want_sample() && !spans.is_empty() && ast.size() >= 3 {
        obs.sample(c.to_json().with("engine_spans", J::s(&format!("{:?}", spans))).with("reference_spans", J::s(&format!("{:?}", ref_spans[0]))).with("domain", J::s(if strict { "strict" } else { "weak" })));
    }
    Ok(Outcome::Held)
}
