// C02, C03, C11, C12, C19 — monitors built on the shared reference-model check.
use super::refcheck::*;
use super::*;
use crate::ast::{ClassExpr, ClassItem};
use crate::engine;
use crate::gen::*;
use crate::uoracle::case_partner;

fn raw(v: &[(&str, &str, &str)]) -> Vec<Case> {
    v.iter().map(|(p, f, s)| Case::raw(p, f, s)).collect()
}

// ------------------------------------------------------------------------------------------
pub struct C02;

/// shapes the property names: later longer alternative vs earlier shorter one, reluctant
/// quantifier before an optional term, nested greedy/reluctant, the five repetition operators
fn gen_choice_shape(rng: &mut Rng, cfg: &GenCfg) -> Node {
    let ch = |rng: &mut Rng| Node::Char(*rng.pick(&['a', 'b']));
    let word = |rng: &mut Rng, n: usize| -> Node { Node::Cat((0..n).map(|_| Node::Char(*rng.pick(&['a', 'b']))).collect()) };
    let rep = |body: Node, min: usize, max: Option<usize>, greedy: bool| Node::Repeat { body: Box::new(body), min, max, greedy, spell: 0 };
    match rng.below(8) {
        0 => {
            // (?:a|ab)(?:c|bcd)? style: shorter earlier alternative, longer later one
            let w1 = 1 + rng.below(2);
            let w2 = w1 + 1 + rng.below(2);
            let a = Node::Alt(vec![word(rng, w1), word(rng, w2)]);
            let tail = if rng.chance(1, 2) { rep(Node::NcGroup(Box::new(word(rng, 2))), 0, Some(1), true) } else { ch(rng) };
            Node::Cat(vec![Node::NcGroup(Box::new(a)), tail])
        }
        1 => {
            // reluctant quantifier before an optional term
            let greedy2 = rng.chance(1, 2);
            Node::Cat(vec![ch(rng), rep(Node::Dot, rng.below(2), None, false), rep(ch(rng), 0, Some(1), greedy2), ch(rng)])
        }
        2 => {
            // nested greedy / reluctant
            let g1 = rng.chance(1, 2);
            let g2 = rng.chance(1, 2);
            let inner = rep(ch(rng), 1, None, g1);
            let body = Node::NcGroup(Box::new(Node::Cat(vec![inner, rep(ch(rng), 0, Some(1), true)])));
            Node::Cat(vec![rep(body, 1, Some(3), g2), ch(rng)])
        }
        3 => {
            // fixed-length body, bounded and unbounded, greedy and reluctant
            let body = Node::Group(Box::new(Node::Alt(vec![ch(rng), ch(rng)])));
            let (min, max) = *rng.pick(&[(0, None), (1, None), (2, Some(3)), (1, Some(2)), (0, Some(2))]);
            let g = rng.chance(1, 2);
            Node::Cat(vec![rep(body, min, max, g), ch(rng)])
        }
        4 => {
            // variable-length body
            let body = Node::NcGroup(Box::new(Node::Alt(vec![word(rng, 1), word(rng, 2)])));
            let (min, max) = *rng.pick(&[(0, None), (1, None), (2, Some(3)), (1, Some(2))]);
            let g = rng.chance(1, 2);
            Node::Cat(vec![rep(body, min, max, g), ch(rng)])
        }
        5 => {
            // class repeat followed by overlapping / disjoint term (unambiguous-repeat rewrite)
            let cls = Node::Class(ClassExpr { neg: false, items: vec![ClassItem::Ch('a'), ClassItem::Ch('b')], sub: None });
            let g = rng.chance(1, 2);
            Node::Cat(vec![rep(cls, rng.below(2), None, g), ch(rng), rep(ch(rng), 0, Some(1), true)])
        }
        _ => gen_pattern(rng, cfg),
    }
}

/// letters whose case relations are irregular (three-way folds, one-to-many mappings): outside
/// the domain of the reference model, inside the domain of the oracle-free scan check below
pub const IRREGULAR_CASE: &[char] = &['i', 'I', '\u{130}', '\u{131}', 'k', 'K', '\u{212A}', 's', 'S', '\u{17F}', '\u{3C3}', '\u{3C2}', '\u{3A3}', '\u{DF}', '\u{1E9E}', '\u{3C9}', '\u{3A9}', '\u{2126}', '\u{E5}', '\u{C5}', '\u{212B}', '\u{1C4}', '\u{1C5}', '\u{1C6}', '\u{10400}', '\u{10428}', 'a'];

/// Oracle-free half of "leftmost": the scan (with its prefix, initial-class, minimum-length and
/// precondition shortcuts) must stop exactly where the engine's own anchored match '^(?:P)' on
/// the remaining suffix succeeds. Patterns with anchors are skipped (a suffix changes what
/// they see); everything else in this dialect is context-free to the left.
fn self_scan_check(c: &Case, obs: &mut Obs) -> Outcome {
    let ast = match ast_of(c) {
        Some(a) => a,
        None => return Outcome::Inconclusive("no_ast"),
    };
    if ast.has_anchor() || c.dialect != Dialect::XPath || c.flags.contains('q') {
        return Outcome::Inconclusive("self_scan_not_applicable");
    }
    let re = match compile_case(c) {
        Ok(r) => r,
        Err(o) => return o,
    };
    if re.verif_facts().5 {
        return Outcome::Inconclusive("pattern_matches_empty");
    }
    let fl: String = c.flags.chars().filter(|x| *x != 'm').collect();
    let anchored = match engine::compile(&format!("^(?:{})", c.pattern), &fl, c.dialect) {
        Ok(Ok(r)) => r,
        Ok(Err(_)) => return Outcome::Inconclusive("anchored_form_rejected"),
        Err(f) => return api(Err::<(), engine::Fail>(f), "compile").err().unwrap(),
    };
    let spans = match api(engine::spans_via_replace(&re, &c.input), "replace_all") {
        Ok(Ok(v)) => v,
        Ok(Err(_)) => return Outcome::Inconclusive("replace_rejected"),
        Err(o) => return o,
    };
    let chars: Vec<char> = c.input.chars().collect();
    let suffix = |k: usize| -> String { chars[k..].iter().collect() };
    let mut at = |k: usize| -> Result<bool, Outcome> { api(engine::is_match(&anchored, &suffix(k)), "is_match") };
    let mut pos = 0usize;
    for (s, e) in &spans {
        for k in pos..*s {
            match at(k) {
                Ok(true) => return Outcome::Violated(vec![Finding::new("scan_skips_anchored_match", format!("spans {:?}: nothing reported at offset {}", spans, k), format!("'^(?:P)' matches the suffix at offset {}", k))]),
                Ok(false) => {}
                Err(o) => return o,
            }
        }
        match at(*s) {
            Ok(false) => return Outcome::Violated(vec![Finding::new("span_start_not_an_anchored_match", format!("spans {:?}", spans), format!("'^(?:P)' does not match the suffix at offset {}", s))]),
            Ok(true) => {}
            Err(o) => return o,
        }
        pos = if e > s { *e } else { s + 1 };
    }
    for k in pos..chars.len() {
        match at(k) {
            Ok(true) => return Outcome::Violated(vec![Finding::new("scan_skips_anchored_match", format!("spans {:?}: nothing reported at offset {}", spans, k), format!("'^(?:P)' matches the suffix at offset {}", k))]),
            Ok(false) => {}
            Err(o) => return o,
        }
    }
    obs.count("self_scan_checked");
    if !spans.is_empty() {
        obs.count("self_scan_with_matches");
        if spans[0].0 > 0 {
            obs.count("self_scan_match_not_at_offset_0");
        }
        if ast.size() >= 2 {
            obs.nontrivial(c.key());
        }
    }
    Outcome::Held
}

impl Monitor for C02 {
    fn rule(&self) -> &'static str {
        "cases = (pattern that cannot match the empty string, flags, input with astral characters); match spans observed through replace_all(s, U+1 $0 U+2) and analyze; oracle: ordered-choice scan of the reference model where no quantifier has a nullable body (strict clause), otherwise leftmost start + span membership in the match relation (weak clause). Non-trivial: AST >= 2 nodes, non-empty input and at least one match; distinct by (pattern, flags, input)."
    }
    fn check(&self, c: &Case, obs: &mut Obs) -> Outcome {
        if c.aux.as_deref() == Some("selfscan") {
            return self_scan_check(c, obs);
        }
        ref_check(c, obs, Wants { spans: true, ..Default::default() })
    }
    fn workload(&self, w: &Work, emit: &mut dyn FnMut(Case)) -> J {
        let n = w.share(150_000, 5_000_000);
        let mut rng = w.rng("C02", 1);
        // oracle-free scan check, on the alphabet the reference model does not cover
        {
            let ns = w.share(40_000, 1_000_000);
            let mut rng = w.rng("C02", 2);
            let mut cfg = GenCfg::std(IRREGULAR_CASE);
            cfg.props = false;
            cfg.no_nullable_quant = true;
            let std = GenCfg::std(STD_ALPHA);
            for k in 0..ns {
                let ast = match k % 4 {
                    0 => {
                        // literal prefix (the prefix scan) followed by anything
                        let w = 1 + rng.below(3);
                        let mut v: Vec<Node> = (0..w).map(|_| Node::Char(*rng.pick(IRREGULAR_CASE))).collect();
                        if rng.chance(1, 2) {
                            v.push(gen_pattern(&mut rng, &cfg));
                        }
                        Node::Cat(v).normalize()
                    }
                    1 => gen_shortcut(&mut rng, &cfg),
                    2 => gen_pattern(&mut rng, &cfg),
                    _ => gen_shortcut(&mut rng, &std),
                };
                if ast.nullable() || ast.has_anchor() || !ast.valid_backrefs() {
                    continue;
                }
                let fl = *rng.pick(&["i", "i", "i", "", "is", "ix"]);
                for _ in 0..2 {
                    let alpha: &[char] = if k % 4 == 3 { STD_EXTRA } else { IRREGULAR_CASE };
                    let mut inp = gen_input(&mut rng, &ast, alpha, 8);
                    if fl.contains('i') && rng.chance(1, 2) {
                        // swap the case of some letters so that the match is not in the pattern's own case
                        inp = inp.chars().map(|ch| if rng.chance(1, 2) { crate::uoracle::case_partner(ch).unwrap_or(ch) } else { ch }).collect();
                    }
                    let mut c = Case::new(&ast, fl, &inp);
                    c.aux = Some("selfscan".to_string());
                    emit(c);
                }
            }
        }
        let mut strict = GenCfg::std(&['a', 'b', 'a', 'b', 'A', '\u{10400}', ' ']);
        strict.no_nullable_quant = true;
        strict.backrefs = false;
        let weak = GenCfg::std(STD_ALPHA);
        for k in 0..n {
            let ast = match k % 8 {
                0 | 1 | 2 => gen_choice_shape(&mut rng, &strict),
                3 | 4 => gen_pattern(&mut rng, &strict),
                5 => gen_line_shape(&mut rng, &['a', 'b', '#']),
                _ => gen_pattern(&mut rng, &weak),
            };
            if ast.nullable() && rng.chance(9, 10) {
                continue;
            }
            let fl = if k % 8 == 5 { *rng.pick(&["m", "m", "ms", "im"]) } else { *rng.pick(&["", "", "", "i", "s", "m", "ms"]) };
            for _ in 0..3 {
                let mut inp = gen_input(&mut rng, &ast, &['a', 'b', '\u{10400}', '\n', ' '], 10);
                if rng.chance(1, 3) {
                    // inputs with several adjacent candidate matches
                    inp = format!("{}{}", inp, inp);
                }
                emit(Case::new(&ast, fl, &inp));
            }
        }
        J::obj().with("random_patterns_this_shard", J::u(n))
    }
    fn corpus(&self) -> Vec<Case> {
        raw(&[("(?:a|ab){0,2}c", "", "abac"), ("(?:\\w|\\w-){0,3}!", "", "a-bc!"), ("a|ab", "", "abab"), ("(?:a|ab)(?:c|bcd)", "", "abcd"), ("a.*?b?c", "", "axbcbc"), ("\u{10400}+b", "", "a\u{10400}\u{10400}b\u{10400}b"), ("(?:a|b)*?b", "", "aabab"), ("\\n(?:a?)*?", "", "\na")])
    }
}

// ------------------------------------------------------------------------------------------
pub struct C03;

fn gen_many_groups(rng: &mut Rng) -> Node {
    // 10-12 groups, some optional, some nested
    let n = 10 + rng.below(3);
    let mut v = vec![];
    for i in 0..n {
        let c = Node::Char(*rng.pick(&['a', 'b', 'c']));
        let g = Node::Group(Box::new(if i % 4 == 3 { Node::Cat(vec![c.clone(), Node::Group(Box::new(Node::Char('b')))]) } else { c }));
        if rng.chance(1, 4) {
            v.push(Node::Repeat { body: Box::new(g), min: 0, max: Some(1), greedy: true, spell: 0 });
        } else {
            v.push(g);
        }
        if v.iter().map(|x| x.count_groups()).sum::<usize>() >= n {
            break;
        }
    }
    Node::Cat(v)
}

impl Monitor for C03 {
    fn rule(&self) -> &'static str {
        "cases = (pattern with >= 1 capturing group that cannot match the empty string, flags, input); group texts observed through replace_all with $1..$N probes and through analyze group entries; oracle: captures of the ordered-choice path (strict domain; both capture readings inside loops must agree) or existence of a relation path with the reported span and group texts (weak domain); analyze structure (nesting per the pattern, concatenation = match, presence = participation). Non-trivial: >= 1 match and AST >= 2 nodes."
    }
    fn check(&self, c: &Case, obs: &mut Obs) -> Outcome {
        ref_check(c, obs, Wants { spans: false, groups: true, analyze: true, is_match: false })
    }
    fn workload(&self, w: &Work, emit: &mut dyn FnMut(Case)) -> J {
        let n = w.share(150_000, 5_000_000);
        let mut rng = w.rng("C03", 1);
        let mut cfg = GenCfg::std(&['a', 'b', 'a', 'b', 'A', ' ', '\u{10400}']);
        cfg.no_nullable_quant = true;
        cfg.backrefs = false;
        cfg.ncgroups = true;
        let mut weak = cfg.clone();
        weak.no_nullable_quant = false;
        // parentheses and brackets as literals and class members (analyze re-scans the pattern text
        // for its group-nesting table), with groups that may capture nothing
        let mut meta = GenCfg::std(&['a', 'b', '(', ')', '[', ']', '\\', 'a', '(']);
        meta.backrefs = false;
        meta.props = false;
        for k in 0..n {
            let ast = match k % 8 {
                7 => gen_many_groups(&mut rng),
                6 => gen_pattern(&mut rng, &weak),
                3 if k % 16 == 3 => gen_capture_loop_shape(&mut rng),
                4 if k % 16 == 4 => {
                    // a parenthesis or bracket as a class member before groups that end where an
                    // empty group begins: analyze's nesting table must not count it as a group
                    let ch = |rng: &mut Rng| Node::Char(*rng.pick(&['a', 'b']));
                    let cls = |rng: &mut Rng| Node::Class(ClassExpr { neg: rng.chance(1, 4), items: vec![ClassItem::Ch(*rng.pick(&['(', ')', '[', ']'])), ClassItem::Ch(*rng.pick(&['(', 'x', ')']))], sub: None });
                    let opt = |n: Node, rng: &mut Rng| Node::Repeat { body: Box::new(n), min: 0, max: if rng.chance(1, 2) { Some(1) } else { None }, greedy: true, spell: 0 };
                    let empty_group = |rng: &mut Rng| Node::Group(Box::new(opt(Node::Char(*rng.pick(&['b', ','])), rng)));
                    match rng.below(4) {
                        0 => Node::Cat(vec![Node::Group(Box::new(Node::Cat(vec![cls(&mut rng), ch(&mut rng)]))), empty_group(&mut rng)]),
                        1 => Node::Cat(vec![Node::Group(Box::new(Node::Cat(vec![ch(&mut rng), opt(cls(&mut rng), &mut rng), empty_group(&mut rng)]))), empty_group(&mut rng)]),
                        2 => Node::Cat(vec![cls(&mut rng), Node::Group(Box::new(ch(&mut rng))), empty_group(&mut rng)]),
                        _ => Node::Cat(vec![Node::Group(Box::new(Node::Repeat { body: Box::new(ch(&mut rng)), min: 1, max: None, greedy: true, spell: 0 })), Node::Group(Box::new(opt(cls(&mut rng), &mut rng))), empty_group(&mut rng)]),
                    }
                }
                4 => gen_pattern(&mut rng, &meta),
                _ => gen_pattern(&mut rng, &cfg),
            };
            if ast.count_groups() == 0 || (ast.nullable() && rng.chance(9, 10)) {
                continue;
            }
            if k % 8 == 5 {
                // the same pattern anchored to line starts under flag m, on an input of several
                // lines: successive matches start from the '^' fast path of the search loop and
                // must not see the groups of the previous line's match
                let anchored = Node::Cat(vec![Node::Bol, ast.clone()]).normalize();
                let fl = *rng.pick(&["m", "m", "mi", "ms"]);
                for _ in 0..3 {
                    let lines: Vec<String> = (0..2 + rng.below(2)).map(|_| gen_input(&mut rng, &ast, &['a', 'b', 'c', '\u{10400}'], 4).replace('\n', "")).collect();
                    emit(Case::new(&anchored, fl, &lines.join("\n")));
                }
                continue;
            }
            let fl = *rng.pick(&["", "", "i", "s"]);
            for _ in 0..3 {
                let extra: &[char] = if k % 8 == 4 { &['a', 'b', '(', ')', '[', ']'] } else { &['a', 'b', 'c', '\u{10400}', '\n'] };
                let inp = gen_input(&mut rng, &ast, extra, 9);
                let mut c = Case::new(&ast, fl, &inp);
                if k % 8 == 4 && rng.chance(1, 2) {
                    // parentheses need no escape inside a class: write them raw there
                    let mut out = String::new();
                    let mut depth = 0usize;
                    let pc: Vec<char> = c.pattern.chars().collect();
                    let mut i = 0;
                    while i < pc.len() {
                        let ch = pc[i];
                        if ch == '\\' && i + 1 < pc.len() {
                            if depth > 0 && (pc[i + 1] == '(' || pc[i + 1] == ')') {
                                out.push(pc[i + 1]);
                            } else {
                                out.push(ch);
                                out.push(pc[i + 1]);
                            }
                            i += 2;
                            continue;
                        }
                        if ch == '[' {
                            depth += 1;
                        } else if ch == ']' && depth > 0 {
                            depth -= 1;
                        }
                        out.push(ch);
                        i += 1;
                    }
                    c.pattern = out;
                }
                emit(c);
            }
        }
        J::obj().with("random_patterns_this_shard", J::u(n))
    }
    fn corpus(&self) -> Vec<Case> {
        raw(&[("(?:.+)*?(?:|(b.))a.", "", "baa"), ("(?:.+){0,}?([a]||(b.))a.", "", "baa"), ("a(b?)c", "", "ac"), ("(a|b)*b", "", "ab"), ("(.)+b", "", "ab"), ("(a)|(b)", "", "ba"), ("((a)|(b))+c", "", "abc"), ("(a)(b)(c)(d)(e)(f)(g)(h)(i)(j)(k)", "", "abcdefghijk"), ("(a(b?))c", "", "ac")])
    }
}

// ------------------------------------------------------------------------------------------
pub struct C19;

pub fn gen_backref_shape(rng: &mut Rng) -> Node {
    let ch = |rng: &mut Rng| Node::Char(*rng.pick(&['a', 'b', 'A']));
    let any = |rng: &mut Rng| -> Node {
        match rng.below(4) {
            0 => Node::Dot,
            1 => Node::Class(ClassExpr { neg: false, items: vec![ClassItem::Ch('a'), ClassItem::Ch('b')], sub: None }),
            _ => Node::Char(*rng.pick(&['a', 'b', 'A'])),
        }
    };
    let rep = |body: Node, min: usize, max: Option<usize>, greedy: bool| Node::Repeat { body: Box::new(body), min, max, greedy, spell: 0 };
    let grp = |n: Node| Node::Group(Box::new(n));
    match rng.below(9) {
        // counted repetition of a fixed-length cluster whose alternatives set different groups,
        // followed by a back-reference that tells the alternatives of the last repetition apart
        8 => {
            let alt = Node::Alt(vec![grp(any(rng)), grp(any(rng))]);
            let n = 2 + rng.below(2);
            let max = if rng.chance(2, 3) { Some(n) } else { Some(n + 1) };
            let mut v = vec![rep(Node::NcGroup(Box::new(alt)), n, max, rng.chance(3, 4)), Node::Backref(1 + rng.below(2))];
            if rng.chance(2, 3) {
                v.push(ch(rng));
            }
            Node::Cat(v)
        }
        // group in sequence
        0 => Node::Cat(vec![grp(rep(any(rng), 1, Some(2), true)), ch(rng), Node::Backref(1)]),
        // group in an earlier alternative / optional group that may not participate
        1 => Node::Cat(vec![Node::NcGroup(Box::new(Node::Alt(vec![grp(ch(rng)), ch(rng)]))), Node::Backref(1), rep(ch(rng), 0, Some(1), true)]),
        2 => Node::Cat(vec![rep(grp(any(rng)), 0, Some(1), true), ch(rng), Node::Backref(1)]),
        // group inside a repetition
        3 => Node::Cat(vec![rep(grp(any(rng)), 1, None, rng.chance(1, 2)), Node::Backref(1)]),
        4 => Node::Cat(vec![rep(Node::NcGroup(Box::new(Node::Cat(vec![grp(any(rng)), Node::Backref(1)]))), 1, Some(3), true), ch(rng)]),
        // nested groups
        5 => {
            if rng.chance(1, 2) {
                Node::Cat(vec![grp(Node::Cat(vec![grp(any(rng)), any(rng)])), Node::Backref(2), Node::Backref(1)])
            } else {
                // a capture nested in a repeated fixed-length non-capturing cluster, with give-back
                let cluster = Node::NcGroup(Box::new(Node::Cat(vec![ch(rng), grp(any(rng))])));
                let q = *rng.pick(&[(1, None), (0, None), (1, Some(3)), (2, None)]);
                Node::Cat(vec![rep(cluster, q.0, q.1, true), ch(rng), any(rng), Node::Backref(1)])
            }
        }
        // quantified back-reference
        6 => Node::Cat(vec![grp(any(rng)), rep(Node::Backref(1), rng.below(2), None, rng.chance(1, 2)), ch(rng)]),
        _ => {
            let mut cfg = GenCfg::std(&['a', 'b', 'A', 'a', 'b']);
            cfg.props = false;
            let mut n = gen_pattern(rng, &cfg);
            for _ in 0..5 {
                if n.has_backref() {
                    break;
                }
                n = gen_pattern(rng, &cfg);
            }
            n
        }
    }
}

/// textual patterns with 10+ groups and multi-digit back-references (the AST comes from the
/// independent parser, which implements the 'longest number not exceeding the groups opened' rule)
fn gen_multidigit(rng: &mut Rng) -> (String, String) {
    let n = 9 + rng.below(4); // 9..12 groups
    let mut p = String::new();
    let mut input = String::new();
    let letters: Vec<char> = "abcdefghijkl".chars().collect();
    for l in letters.iter().take(n) {
        p.push('(');
        p.push(*l);
        p.push(')');
        input.push(*l);
    }
    let k = 1 + rng.below(n);
    p.push_str(&format!("\\{}", k));
    // what the reference expects after the groups depends on how \k is split; offer plausible inputs
    let tail_digit = rng.chance(1, 2);
    let d = rng.below(10);
    if tail_digit {
        p.push_str(&d.to_string());
    }
    // candidate inputs: group text of the full number, or of its first digit followed by literal digits
    let ks = k.to_string();
    let full = if tail_digit { format!("{}{}", ks, d) } else { ks.clone() };
    let mut cands = vec![];
    for split in 1..=full.len() {
        if let Ok(g) = full[..split].parse::<usize>() {
            if g >= 1 && g <= n {
                let mut s = input.clone();
                s.push(letters[g - 1]);
                s.push_str(&full[split..]);
                cands.push(s);
            }
        }
    }
    let s = if cands.is_empty() { input } else { cands[rng.below(cands.len())].clone() };
    (p, s)
}

/// Oracle-free twin for back-references under flag i on letters the reference model does not
/// cover: when group 1 is a literal that the input repeats verbatim, '\1' is compared with the
/// following text exactly as a second copy of the literal would be. aux = "lit_twin"; the pattern
/// is P = pre (L) sep \1 post, the twin P' = pre (L) sep L post.
fn backref_literal_twin_check(c: &Case, obs: &mut Obs) -> Outcome {
    let ast = match ast_of(c) {
        Some(a) => a,
        None => return Outcome::Inconclusive("no_ast"),
    };
    let groups = ast.groups_in_order();
    let lit = match groups.first() {
        Some(Node::Group(b)) if matches!(&**b, Node::Char(_)) || matches!(&**b, Node::Cat(v) if v.iter().all(|x| matches!(x, Node::Char(_)))) => (**b).clone(),
        _ => return Outcome::Inconclusive("group_1_is_not_a_literal"),
    };
    fn swap(n: &Node, lit: &Node) -> Node {
        match n {
            Node::Backref(1) => Node::NcGroup(Box::new(lit.clone())),
            Node::Group(b) => Node::Group(Box::new(swap(b, lit))),
            Node::NcGroup(b) => Node::NcGroup(Box::new(swap(b, lit))),
            Node::Cat(v) => Node::Cat(v.iter().map(|x| swap(x, lit)).collect()),
            Node::Alt(v) => Node::Alt(v.iter().map(|x| swap(x, lit)).collect()),
            Node::Repeat { body, min, max, greedy, spell } => Node::Repeat { body: Box::new(swap(body, lit)), min: *min, max: *max, greedy: *greedy, spell: *spell },
            o => o.clone(),
        }
    }
    let twin = swap(&ast, &lit);
    let re1 = match compile_case(c) {
        Ok(r) => r,
        Err(o) => return o,
    };
    let re2 = match api(engine::compile(&twin.render(), &c.flags, c.dialect), "compile") {
        Ok(Ok(r)) => r,
        Ok(Err(_)) => return Outcome::Inconclusive("twin_rejected"),
        Err(o) => return o,
    };
    let (m1, m2) = match (api(engine::is_match(&re1, &c.input), "is_match"), api(engine::is_match(&re2, &c.input), "is_match")) {
        (Ok(a), Ok(b)) => (a, b),
        (Err(o), _) | (_, Err(o)) => return o,
    };
    obs.count(if m2 { "literal_twin_matches" } else { "literal_twin_does_not_match" });
    if m1 != m2 {
        return Outcome::Violated(vec![Finding::new("backreference_differs_from_literal_copy", format!("with \\1: {}", m1), format!("with the literal {:?} in its place: {}", lit.render(), m2))]);
    }
    let (s1, s2) = match (api(engine::spans_via_replace(&re1, &c.input), "replace_all"), api(engine::spans_via_replace(&re2, &c.input), "replace_all")) {
        (Ok(a), Ok(b)) => (a, b),
        (Err(o), _) | (_, Err(o)) => return o,
    };
    if s1 != s2 {
        return Outcome::Violated(vec![Finding::new("backreference_differs_from_literal_copy", format!("spans with \\1: {:?}", s1), format!("spans with the literal in its place: {:?}", s2))]);
    }
    if m2 {
        obs.nontrivial(c.key());
    }
    Outcome::Held
}

impl Monitor for C19 {
    fn rule(&self) -> &'static str {
        "cases = (pattern containing back-references, flags incl. i, input over {a,b,A}); is_match against the env-aware match relation (exhaustive over match paths), spans and captures against the ordered-choice reference (strict domain) or the weak clause; where the two readings of capture semantics inside loops differ the case is not judged. Multi-digit \\N: patterns with 9-12 groups whose AST is produced by the independent parser. Non-trivial: AST >= 2 nodes and non-empty input."
    }
    fn check(&self, c: &Case, obs: &mut Obs) -> Outcome {
        let ast = match ast_of(c) {
            Some(a) => a,
            None => {
                // the independent parser rejects the text: the engine must reject it too (C07 clause on back-references)
                return match engine::compile(&c.pattern, &c.flags, c.dialect) {
                    Ok(Ok(_)) => match crate::grammar::parse(&c.pattern, false, false) {
                        crate::grammar::Parsed::Invalid(r) => Outcome::Violated(vec![Finding::new("invalid_backreference_accepted", "Ok", format!("Error::Syntax ({})", r))]),
                        _ => Outcome::Inconclusive("no_ast"),
                    },
                    _ => Outcome::Held,
                };
            }
        };
        if !ast.has_backref() {
            return Outcome::Inconclusive("no_backref");
        }
        if c.aux.as_deref() == Some("lit_twin") {
            return backref_literal_twin_check(c, obs);
        }
        obs.count("with_backref");
        let o = ref_check(c, obs, Wants { is_match: true, spans: true, groups: true, analyze: false });
        if let Outcome::Inconclusive("rejected_by_compiler") = o {
            return Outcome::Violated(vec![Finding::new("valid_backreference_rejected", "Err", "Ok (the independent parser accepts the pattern)")]);
        }
        o
    }
    fn workload(&self, w: &Work, emit: &mut dyn FnMut(Case)) -> J {
        let n = w.share(150_000, 5_000_000);
        let mut rng = w.rng("C19", 1);
        for k in 0..n {
            if k % 10 == 9 {
                let (p, s) = gen_multidigit(&mut rng);
                emit(Case::raw(&p, "", &s));
                continue;
            }
            let ast = gen_backref_shape(&mut rng);
            if !ast.has_backref() {
                continue;
            }
            let fl = *rng.pick(&["", "", "i", "i", "s"]);
            for _ in 0..3 {
                let inp = gen_input(&mut rng, &ast, &['a', 'b', 'A'], 8);
                emit(Case::new(&ast, fl, &inp));
            }
        }
        // back-references under flag i on letters with irregular case relations: literal twin
        let nt = w.share(30_000, 600_000);
        for _ in 0..nt {
            let len = 1 + rng.below(3);
            let l: Vec<char> = (0..len).map(|_| *rng.pick(IRREGULAR_CASE)).collect();
            let lit = Node::Cat(l.iter().map(|c| Node::Char(*c)).collect()).normalize();
            let sep: Vec<char> = if rng.chance(1, 3) { vec!['-'] } else { vec![] };
            let mut v = vec![];
            let anchored = rng.chance(1, 2);
            if anchored {
                v.push(Node::Bol);
            }
            v.push(Node::Group(Box::new(lit)));
            v.extend(sep.iter().map(|c| Node::Char(*c)));
            v.push(Node::Backref(1));
            if rng.chance(1, 3) {
                v.push(Node::Repeat { body: Box::new(Node::Backref(1)), min: 0, max: Some(1), greedy: true, spell: 0 });
            }
            if anchored {
                v.push(Node::Eol);
            }
            let ast = Node::Cat(v);
            // input: the literal verbatim, then a case variant (or an unrelated letter) per character
            let variant = |rng: &mut Rng, c: char| -> char {
                let fam: &[&[char]] = &[&['k', 'K', '\u{212A}'], &['i', 'I', '\u{130}', '\u{131}'], &['s', 'S', '\u{17F}'], &['\u{3C3}', '\u{3C2}', '\u{3A3}'], &['\u{DF}', '\u{1E9E}'], &['\u{3C9}', '\u{3A9}', '\u{2126}'], &['\u{E5}', '\u{C5}', '\u{212B}'], &['\u{1C4}', '\u{1C5}', '\u{1C6}'], &['\u{10400}', '\u{10428}'], &['a', 'A']];
                if rng.chance(1, 8) {
                    return *rng.pick(IRREGULAR_CASE);
                }
                for f in fam {
                    if f.contains(&c) {
                        return *rng.pick(f);
                    }
                }
                c
            };
            let mut inp: String = String::new();
            if !anchored && rng.chance(1, 2) {
                inp.push('x');
            }
            inp.extend(l.iter());
            inp.extend(sep.iter());
            for c in &l {
                inp.push(variant(&mut rng, *c));
            }
            let mut c = Case::new(&ast, *rng.pick(&["i", "i", "i", ""]), &inp);
            c.aux = Some("lit_twin".to_string());
            emit(c);
        }
        J::obj().with("random_patterns_this_shard", J::u(n)).with("literal_twin_cases_this_shard", J::u(nt))
    }
    fn corpus(&self) -> Vec<Case> {
        raw(&[
            ("^(?:b|(a))\\1$", "", "b"),
            ("^(?:(a)|b)\\1$", "", "b"),
            ("(1)+\\1", "", "1"),
            ("(a)\\1", "i", "aA"),
            ("(a)(b)(c)(d)(e)(f)(g)(h)(i)(j)\\10", "", "abcdefghijj"),
            ("(a)(b)(c)(d)(e)(f)(g)(h)(i)\\10", "", "abcdefghia0"),
            ("([a-b])+\\1+", "", "ab"),
            ("(?:(?:.|(a))? \\1)1", "", "a a1"),
            ("(?:(?:.|(a))?? \\1)1", "", "a a1"),
            ("(?:(.)\u{3bb}\u{e0})+\\1", "s", "z\u{3bb}\u{e0}\u{c0}\u{3bb}\u{c0}"),
        ])
    }
}

// ------------------------------------------------------------------------------------------
pub struct C11;

/// alphabets of letters with one-to-one simple case mappings, mixed with case-less characters
pub const CI_LETTERS: &[char] = &['a', 'b', 'Z', 'à', 'É', 'þ', 'α', 'Λ', 'г', 'Ж', '\u{10400}', '\u{10428}', 'ѐ', 'Ш'];
pub const CI_CASELESS: &[char] = &['1', ' ', '\n', '-', '_', '%'];

fn ci_alphabet() -> Vec<char> {
    let mut v: Vec<char> = CI_LETTERS.iter().copied().filter(|c| case_partner(*c).is_some() && *c != 'K' && *c != 'k').collect();
    v.extend(CI_LETTERS.iter().filter_map(|c| case_partner(*c)).filter(|c| *c != 'K' && *c != 'k'));
    // K/k is excluded: U+212A KELVIN SIGN also lower-cases to k (many-to-one)
    v.retain(|c| *c != 'K' && *c != 'k');
    v
}

fn swap_case_str(s: &str, rng: &mut Rng) -> String {
    s.chars().map(|c| if rng.chance(1, 2) { case_partner(c).unwrap_or(c) } else { c }).collect()
}

fn swap_case_ast(n: &Node, rng: &mut Rng) -> Node {
    match n {
        Node::Char(c) => Node::Char(if rng.chance(1, 2) { case_partner(*c).unwrap_or(*c) } else { *c }),
        Node::Group(b) => Node::Group(Box::new(swap_case_ast(b, rng))),
        Node::NcGroup(b) => Node::NcGroup(Box::new(swap_case_ast(b, rng))),
        Node::Cat(v) => Node::Cat(v.iter().map(|x| swap_case_ast(x, rng)).collect()),
        Node::Alt(v) => Node::Alt(v.iter().map(|x| swap_case_ast(x, rng)).collect()),
        Node::Repeat { body, min, max, greedy, spell } => Node::Repeat { body: Box::new(swap_case_ast(body, rng)), min: *min, max: *max, greedy: *greedy, spell: *spell },
        Node::Class(ce) => {
            fn cls(ce: &ClassExpr, rng: &mut Rng) -> ClassExpr {
                ClassExpr {
                    neg: ce.neg,
                    items: ce
                        .items
                        .iter()
                        .map(|it| match it {
                            ClassItem::Ch(c) => ClassItem::Ch(if rng.chance(1, 2) { case_partner(*c).unwrap_or(*c) } else { *c }),
                            o => o.clone(),
                        })
                        .collect(),
                    sub: ce.sub.as_ref().map(|s| Box::new(cls(s, rng))),
                }
            }
            Node::Class(cls(ce, rng))
        }
        o => o.clone(),
    }
}

/// flag q (+ i): is_match and the match spans of a literal pattern against a naive window search
fn literal_ci_check(c: &Case, obs: &mut Obs) -> Outcome {
    let lit: Vec<char> = c.pattern.chars().collect();
    let inp: Vec<char> = c.input.chars().collect();
    let ci = c.flags.contains('i');
    if lit.is_empty() {
        return Outcome::Inconclusive("empty_literal");
    }
    if ci && lit.iter().chain(inp.iter()).any(|x| !crate::uoracle::case_regular(*x)) {
        return Outcome::Inconclusive("character_with_irregular_case_mapping");
    }
    let eq = |a: char, b: char| a == b || (ci && crate::uoracle::eq_ci(a, b));
    let mut want = vec![];
    let mut k = 0;
    while k + lit.len() <= inp.len() {
        if (0..lit.len()).all(|j| eq(lit[j], inp[k + j])) {
            want.push((k, k + lit.len()));
            k += lit.len();
        } else {
            k += 1;
        }
    }
    let re = match compile_case(c) {
        Ok(r) => r,
        Err(Outcome::Inconclusive(_)) => return Outcome::Violated(vec![Finding::new("literal_pattern_rejected", "Err", "a literal pattern always compiles")]),
        Err(o) => return o,
    };
    let got = match api(engine::is_match(&re, &c.input), "is_match") {
        Ok(b) => b,
        Err(o) => return o,
    };
    obs.count(if want.is_empty() { "literal_oracle_false" } else { "literal_oracle_true" });
    if got != !want.is_empty() {
        return Outcome::Violated(vec![Finding::new(if got { "is_match_false_positive" } else { "is_match_false_negative" }, format!("{}", got), format!("{} (naive case-blind window search)", !want.is_empty()))]);
    }
    // (under flag q the replacement string is literal too, so spans come from analyze)
    let spans = match api(engine::analyze(&re, &c.input), "analyze") {
        Ok(Ok(v)) => analyze_spans(&v),
        Ok(Err(e)) => return Outcome::Violated(vec![Finding::new("literal_analyze_rejected", format!("Err({})", e.name()), "Ok")]),
        Err(o) => return o,
    };
    if spans != want {
        return Outcome::Violated(vec![Finding::new("literal_spans_differ", format!("{:?}", spans), format!("{:?}", want))]);
    }
    if ci && !want.is_empty() && lit.iter().any(|x| case_partner(*x).is_some()) {
        obs.count("literal_case_blind_matches");
        obs.nontrivial(c.key());
    }
    Outcome::Held
}

impl Monitor for C11 {
    fn rule(&self) -> &'static str {
        "cases = (pattern, input) over alphabets of letters with one-to-one simple case mappings (ASCII without k/K, Latin-1, Greek, Cyrillic, Deseret) mixed with case-less characters; (a) differential: is_match and spans vs the reference model with flag i; (b) metamorphic, oracle-free: case-swapping input characters or pattern letters never changes is_match / spans under i; a match without i is a match with i; without i a letter does not match its counterpart. Non-trivial: AST >= 2 nodes and the input contains a cased letter."
    }
    fn check(&self, c: &Case, obs: &mut Obs) -> Outcome {
        if c.aux.as_deref() == Some("literal") {
            return literal_ci_check(c, obs);
        }
        let ast = match ast_of(c) {
            Some(a) => a,
            None => return Outcome::Inconclusive("no_ast"),
        };
        if c.flags.contains('i') {
            // the property quantifies over letters with one-to-one simple case mappings: every input
            // character and every literal character of the pattern (incl. range end points) must be
            // case-less or a member of a pair that no third character folds into. Ranges may then
            // cover anything: for such an input character x, x is in the case closure of a range iff
            // x or its partner lies in the range.
            let mut lits = vec![];
            ast.alphabet(&mut lits);
            if lits.iter().chain(c.input.chars().collect::<Vec<_>>().iter()).any(|x| !crate::uoracle::case_regular(*x)) {
                return Outcome::Inconclusive("character_with_irregular_case_mapping");
            }
        }
        // (a) differential
        let o = ref_check(c, obs, Wants { is_match: true, spans: true, ..Default::default() });
        match o {
            Outcome::Held | Outcome::Inconclusive("pattern_matches_empty") | Outcome::Inconclusive("engine_reports_matches_empty") | Outcome::Inconclusive("reference_selects_empty_match") => {}
            other => return other,
        }
        // (b) metamorphic twins, derived deterministically from the case
        let mut rng = Rng::new(c.key());
        let re = match compile_case(c) {
            Ok(r) => r,
            Err(o) => return o,
        };
        let got = match api(engine::is_match(&re, &c.input), "is_match") {
            Ok(b) => b,
            Err(o) => return o,
        };
        // the swap relation is claimed where no construct tells the cases apart: category escapes
        // such as \p{Lu} are unaffected by flag i (same property), so patterns containing them are
        // outside the relation's domain
        if c.flags.contains('i') && ast.has_case_sensitive_escape() {
            obs.count("case_swap_not_applicable_case_sensitive_escape");
        }
        if c.flags.contains('i') && !ast.has_case_sensitive_escape() {
            let in2 = swap_case_str(&c.input, &mut rng);
            let ast2 = swap_case_ast(&ast, &mut rng);
            let c2 = Case::new(&ast2, &c.flags, &in2);
            let re2 = match compile_case(&c2) {
                Ok(r) => r,
                Err(Outcome::Inconclusive(_)) => return Outcome::Violated(vec![Finding::new("case_swapped_pattern_rejected", format!("{:?} rejected", c2.pattern), "accepted like the original")]),
                Err(o) => return o,
            };
            for (which, r, s) in [("input", &re, &in2), ("pattern", &re2, &c.input), ("both", &re2, &in2)] {
                let g2 = match api(engine::is_match(r, s), "is_match") {
                    Ok(b) => b,
                    Err(o) => return o,
                };
                obs.count("case_swap_twins");
                if g2 != got {
                    return Outcome::Violated(vec![Finding::new(
                        "case_swap_changes_is_match",
                        format!("swapped {}: pattern {:?} input {:?} -> {}", which, if which == "input" { &c.pattern } else { &c2.pattern }, s, g2),
                        format!("{} (as for the original)", got),
                    )]);
                }
            }
            // spans under case swap of the input (pattern unchanged): same spans
            if let (Ok(Ok(s1)), Ok(Ok(s2))) = (engine::spans_via_replace(&re, &c.input), engine::spans_via_replace(&re, &in2)) {
                if s1 != s2 {
                    return Outcome::Violated(vec![Finding::new("case_swap_changes_spans", format!("input {:?}: {:?}", in2, s2), format!("{:?}", s1))]);
                }
            }
            // monotonic: matches without i => matches with i
            let fl0: String = c.flags.chars().filter(|x| *x != 'i').collect();
            // F&O 3.1 §5.6.1.1: [^Q] under i excludes q too, so adding i is monotonic only for
            // patterns without negated groups and subtractions
            if ast.has_negated_or_subtracted_class() {
                obs.count("monotonic_not_applicable_negated_class");
            } else if let Ok(Ok(re0)) = engine::compile(&c.pattern, &fl0, c.dialect) {
                if let Ok(true) = engine::is_match(&re0, &c.input) {
                    if !got {
                        return Outcome::Violated(vec![Finding::new("match_lost_by_adding_flag_i", "false with i", "true (matches without i)")]);
                    }
                    obs.count("monotonic_checked");
                }
            }
        }
        Outcome::Held
    }
    fn workload(&self, w: &Work, emit: &mut dyn FnMut(Case)) -> J {
        let n = w.share(150_000, 5_000_000);
        let mut rng = w.rng("C11", 1);
        let mut alpha = ci_alphabet();
        alpha.extend_from_slice(CI_CASELESS);
        let mut cfg = GenCfg::std(&alpha);
        cfg.props = true;
        let extra: Vec<char> = alpha.clone();
        for k in 0..n {
            let ast = if k % 15 == 1 {
                // a repeated category escape (whose own set is not closed under case) followed by
                // letters written in the case the category does not contain: under flag i the
                // repetition has to give characters back to them
                let cat = |rng: &mut Rng| -> Node {
                    match rng.below(4) {
                        0 => Node::Prop(true, "Ll".to_string()),
                        1 => Node::Prop(true, "Lu".to_string()),
                        2 => Node::Prop(false, "Lu".to_string()),
                        _ => Node::Class(ClassExpr { neg: false, items: vec![ClassItem::Prop(true, "Ll".to_string()), ClassItem::Esc('d')], sub: None }),
                    }
                };
                let letter = |rng: &mut Rng| Node::Char(*rng.pick(&alpha));
                let rep = Node::Repeat { body: Box::new(cat(&mut rng)), min: rng.below(2), max: None, greedy: rng.chance(4, 5), spell: 0 };
                let follower = match rng.below(3) {
                    0 => letter(&mut rng),
                    1 => Node::NcGroup(Box::new(Node::Alt(vec![letter(&mut rng), letter(&mut rng)]))),
                    _ => Node::Group(Box::new(Node::Alt(vec![Node::Cat(vec![letter(&mut rng), letter(&mut rng)]), letter(&mut rng)]))),
                };
                let mut v = vec![rep, follower];
                if rng.chance(1, 2) {
                    v.insert(0, Node::Bol);
                    v.push(Node::Eol);
                }
                Node::Cat(v)
            } else if k % 3 == 0 {
                gen_shortcut(&mut rng, &cfg)
            } else {
                gen_pattern(&mut rng, &cfg)
            };
            let fl = *rng.pick(&["i", "i", "i", "is", "im", ""]);
            for _ in 0..3 {
                let inp = gen_input(&mut rng, &ast, &extra, 8);
                emit(Case::new(&ast, fl, &inp));
            }
        }
        // flag i combined with flag q: the literal is compared case-blind as well; oracle: a
        // window of the input whose characters are pairwise case variants of the literal's
        let nl = w.share(20_000, 500_000);
        let letters = ci_alphabet();
        for _ in 0..nl {
            let len = 1 + rng.below(4);
            let lit: String = (0..len).map(|_| if rng.chance(1, 6) { *rng.pick(&['.', '*', '(', '[', '$', ' ', '1']) } else { *rng.pick(&letters) }).collect();
            let lit: String = if rng.chance(1, 2) { swap_case_str(&lit, &mut rng) } else { lit };
            let fl = *rng.pick(&["qi", "iq", "qi", "q", "qix"]);
            for _ in 0..2 {
                let mut inp = String::new();
                for _ in 0..rng.below(3) {
                    inp.push(*rng.pick(&extra));
                }
                if rng.chance(3, 4) {
                    inp.push_str(&if rng.chance(2, 3) { swap_case_str(&lit, &mut rng) } else { lit.clone() });
                } else {
                    inp.extend(lit.chars().rev());
                }
                for _ in 0..rng.below(3) {
                    inp.push(*rng.pick(&extra));
                }
                let mut c = Case::raw(&lit, fl, &inp);
                c.aux = Some("literal".to_string());
                emit(c);
            }
        }
        J::obj().with("random_patterns_this_shard", J::u(n)).with("literal_patterns_this_shard", J::u(nl)).with("alphabet", J::s(&alpha.iter().collect::<String>()))
    }
    fn corpus(&self) -> Vec<Case> {
        raw(&[("\\s*\\n", "i", "\n"), ("1*1", "i", "1"), ("a*A", "i", "a"), ("\\d*1", "i", "1"), ("[a-[\\s1]]", "i", "A"), ("[b-d]+x", "i", "BCDX"), ("(a)\\1", "i", "aA"), ("\u{10400}+", "i", "\u{10428}"), ("[^a]", "i", "A"), ("abc", "", "ABC")])
    }
}

// ------------------------------------------------------------------------------------------
pub struct C12;

fn anchor_atoms() -> Vec<Node> {
    vec![Node::Char('a'), Node::Char('b'), Node::Dot, Node::Bol, Node::Eol, Node::Char('\n')]
}

impl Monitor for C12 {
    fn rule(&self) -> &'static str {
        "cases = (pattern containing ^, $ or '.', one of the four m/s flag combinations, input); inputs: ALL strings over {a,b,LF,CR} up to the length bound for every pattern; patterns: bounded-exhaustive small ASTs over atoms {a,b,.,^,$,\\n} plus random patterns forced to contain anchors/dot in every position; oracle: reference model (is_match and spans) plus oracle-free flag-insensitivity (no anchor => m irrelevant, no dot => s irrelevant). Non-trivial: pattern has an anchor or dot, AST >= 2 nodes, non-empty input."
    }
    fn check(&self, c: &Case, obs: &mut Obs) -> Outcome {
        let ast = match ast_of(c) {
            Some(a) => a,
            None => return Outcome::Inconclusive("no_ast"),
        };
        let o = ref_check(c, obs, Wants { is_match: true, spans: true, ..Default::default() });
        match o {
            Outcome::Held | Outcome::Inconclusive("pattern_matches_empty") | Outcome::Inconclusive("engine_reports_matches_empty") | Outcome::Inconclusive("reference_selects_empty_match") => {}
            other => return other,
        }
        if ast.has_anchor_in_alternative() && !c.input.is_empty() {
            obs.count("anchor_in_alternative");
        }
        // oracle-free: flag insensitivity
        let re = match compile_case(c) {
            Ok(r) => r,
            Err(o) => return o,
        };
        let got = match api(engine::is_match(&re, &c.input), "is_match") {
            Ok(b) => b,
            Err(o) => return o,
        };
        for (flag, sensitive) in [('m', ast.has_anchor()), ('s', ast.has_dot())] {
            if sensitive {
                continue;
            }
            let fl2: String = if c.flags.contains(flag) { c.flags.chars().filter(|x| *x != flag).collect() } else { format!("{}{}", c.flags, flag) };
            if let Ok(Ok(re2)) = engine::compile(&c.pattern, &fl2, c.dialect) {
                if let Ok(g2) = engine::is_match(&re2, &c.input) {
                    obs.count("flag_insensitivity_checked");
                    if g2 != got {
                        return Outcome::Violated(vec![Finding::new("irrelevant_flag_changes_is_match", format!("flags {:?}: {}", fl2, g2), format!("flags {:?}: {}", c.flags, got))]);
                    }
                }
            }
        }
        Outcome::Held
    }
    fn workload(&self, w: &Work, emit: &mut dyn FnMut(Case)) -> J {
        let mut desc = J::obj();
        let len = if w.quick() { 4 } else { 5 };
        let inputs = all_inputs(&['a', 'b', '\n', '\r'], len);
        // (a) exhaustive small patterns with an anchor or dot
        let n_ops = if w.quick() { 2 } else { 3 };
        let quants = vec![(0, Some(1), true), (0, None, true), (1, None, true), (0, None, false), (1, None, false), (2, Some(2), true)];
        let mut idx = 0u64;
        let mut mine = 0u64;
        for ops in 0..=n_ops {
            for ast in enumerate_small(ops, &anchor_atoms(), &quants) {
                if !(ast.has_anchor() || ast.has_dot()) {
                    continue;
                }
                idx += 1;
                // the full cross product is large: every pattern x a deterministic slice of the inputs in
                // the quick tier, all inputs in the thorough tier for ops <= 2
                if !w.mine(idx) {
                    continue;
                }
                mine += 1;
                let stride = if ops <= 1 { 1 } else if w.quick() { 23 } else if ops == 2 { 1 } else { 17 };
                for fl in ["", "m", "s", "ms"] {
                    for (k, inp) in inputs.iter().enumerate() {
                        if (k as u64 + idx) % stride == 0 {
                            emit(Case::new(&ast, fl, inp));
                        }
                    }
                }
            }
        }
        desc.set("exhaustive_small", J::obj().with("max_operators", J::u(n_ops as u64)).with("patterns_total", J::u(idx)).with("patterns_this_shard", J::u(mine)).with("inputs", J::u(inputs.len() as u64)).with("input_alphabet", J::s("a b LF CR")).with("max_input_len", J::u(len as u64)).with("note", J::s("patterns with <= 1 operator (thorough: <= 2) get every input; larger ones a deterministic 1/23 (thorough 1/17) slice")));
        // (b) random patterns forced to contain anchors / dot x all inputs up to length 3 + random longer
        let n = w.share(12_000, 300_000);
        let mut rng = w.rng("C12", 1);
        let mut cfg = GenCfg::std(&['a', 'b', '\n', 'a', 'b']);
        cfg.props = false;
        cfg.backrefs = false;
        let short = all_inputs(&['a', 'b', '\n', '\r'], 3);
        for k in 0..n {
            let mut ast = match k % 5 {
                4 => gen_line_shape(&mut rng, &['a', 'b']),
                3 => gen_anchor_giveback(&mut rng),
                _ => gen_pattern(&mut rng, &cfg),
            };
            // force an anchor or dot at a random position
            if k % 5 != 3 || !(ast.has_anchor() || ast.has_dot()) {
                let size = ast.size();
                let mut at = rng.below(size) as isize;
                let repl = match rng.below(3) {
                    0 => Node::Bol,
                    1 => Node::Eol,
                    _ => Node::Dot,
                };
                ast = ast.map_at(&mut at, &|old: &Node| match old {
                    Node::Char(_) | Node::Dot | Node::Bol | Node::Eol | Node::Esc(_) | Node::Class(_) => repl.clone(),
                    o => Node::Cat(vec![repl.clone(), o.clone()]),
                });
            }
            if !ast.valid_backrefs() {
                continue;
            }
            let fl = *rng.pick(&["", "m", "s", "ms"]);
            for inp in &short {
                if rng.chance(1, 3) {
                    emit(Case::new(&ast, fl, inp));
                }
            }
            for _ in 0..2 {
                let inp = gen_input(&mut rng, &ast, &['a', 'b', '\n', '\r'], 8);
                emit(Case::new(&ast, fl, &inp));
            }
            if ast.has_dot() {
                // characters that look like line ends but are not: the dot matches them with or without s
                let inp: String = gen_input(&mut rng, &ast, &['a', '\u{b}', '\u{c}', '\u{85}', '\u{2028}', '\n'], 6).chars().map(|c| if c == 'b' && rng.chance(1, 2) { *rng.pick(&['\u{b}', '\u{c}', '\u{85}', '\u{2028}']) } else { c }).collect();
                emit(Case::new(&ast, fl, &inp));
            }
        }
        desc.set("random_patterns_this_shard", J::u(n));
        desc
    }
    fn corpus(&self) -> Vec<Case> {
        raw(&[("a*^a", "", "aa"), ("\\n*$\\nb", "m", "\n\nb"), ("()^a", "m", "\na"), ("b*^a", "m", "\na"), ("(^A)", "im", "\na"), ("($)+.", "", "a"), ("^", "m", "a\n"), ("$", "m", "\na"), (".", "", "\r"), (".", "s", "\n"), ("a$", "m", "a\nb"), ("^b", "m", "a\nb"), ("^*?a", "", "a")])
    }
}
