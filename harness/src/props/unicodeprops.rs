// C09 (class expressions = set algebra) and C10 (category / block / name escapes vs data).
// A case is one class expression (C09) or one escape (C10); the check tests membership of many
// scalar values: all 1,112,064 of them in the thorough tier, boundaries +-1 / Latin-1 / a seeded
// sample in the quick tier. aux selects the character set: "all", "quick:<seed>", "chars:<hex,...>".
use super::refcheck::*;
use super::*;
use crate::ast::{ClassExpr, ClassItem};
use crate::engine;
use crate::gen::*;
use crate::refmodel::class_match;
use crate::uoracle::{self, all_scalars};

fn class_boundaries(ce: &ClassExpr, out: &mut Vec<u32>) {
    for it in &ce.items {
        match it {
            ClassItem::Ch(c) => out.push(*c as u32),
            ClassItem::Range(a, b) => {
                out.push(*a as u32);
                out.push(*b as u32)
            }
            _ => {}
        }
    }
    if let Some(s) = &ce.sub {
        class_boundaries(s, out)
    }
}

/// characters to test for a case
fn char_set(aux: &str, boundaries: &[u32]) -> Vec<char> {
    if aux == "all" {
        return all_scalars().collect();
    }
    if let Some(list) = aux.strip_prefix("chars:") {
        return list.split(',').filter_map(|h| u32::from_str_radix(h, 16).ok()).filter_map(char::from_u32).collect();
    }
    let seed: u64 = aux.strip_prefix("quick:").and_then(|s| s.parse().ok()).unwrap_or(0);
    let mut v: Vec<u32> = (0..=0x24Fu32).collect();
    for b in boundaries {
        for d in [-1i64, 0, 1] {
            let x = *b as i64 + d;
            if (0..=0x10FFFF).contains(&x) {
                v.push(x as u32)
            }
        }
    }
    // fixed interesting points
    v.extend([0x2FF, 0x300, 0x36F, 0x370, 0x37E, 0x37F, 0x1FFF, 0x2000, 0x200B, 0x200C, 0x200D, 0x200E, 0x203F, 0x2040, 0x2041, 0x206F, 0x2070, 0x218F, 0x2190, 0x2BFF, 0x2C00, 0x2FEF, 0x2FF0, 0x3000, 0x3001, 0xD7FF, 0xE000, 0xF8FF, 0xF900, 0xFDCF, 0xFDD0, 0xFDEF, 0xFDF0, 0xFFFD, 0xFFFE, 0xFFFF, 0x10000, 0x10400, 0x10428, 0xEFFFF, 0xF0000, 0xFFFFD, 0xFFFFE, 0x100000, 0x10FFFD, 0x10FFFE, 0x10FFFF]);
    // both ends of every run of equal general category (a few thousand points): any escape or
    // class built from categories can only change membership at these points
    v.extend(category_run_boundaries().iter().copied());
    let mut rng = Rng::new(seed ^ 0xC0FFEE);
    for _ in 0..2500 {
        // half of the sample in the BMP, where most structure is
        let x = if rng.chance(1, 2) { rng.below(0x10000) as u32 } else { rng.below(0x110000) as u32 };
        v.push(x);
    }
    v.sort();
    v.dedup();
    v.into_iter().filter_map(char::from_u32).collect()
}

fn category_run_boundaries() -> &'static Vec<u32> {
    static B: std::sync::OnceLock<Vec<u32>> = std::sync::OnceLock::new();
    B.get_or_init(|| {
        let mut v = vec![];
        let mut prev: Option<(char, &'static str)> = None;
        for c in all_scalars() {
            let g = uoracle::gc2(c);
            match prev {
                Some((pc, pg)) if pg != g || (c as u32) != (pc as u32) + 1 => {
                    v.push(pc as u32);
                    v.push(c as u32);
                }
                None => v.push(c as u32),
                _ => {}
            }
            prev = Some((c, g));
        }
        if let Some((pc, _)) = prev {
            v.push(pc as u32);
        }
        v.sort();
        v.dedup();
        v
    })
}

fn block_boundaries() -> Vec<u32> {
    let mut v = vec![];
    for b in uoracle::repo_blocks() {
        v.push(b.start);
        v.push(b.end);
    }
    v
}

// ------------------------------------------------------------------------------------------
pub struct C09;

impl Monitor for C09 {
    fn rule(&self) -> &'static str {
        "a case = one generated character class expression (nesting depth <= 3; single characters, ranges, class escapes, \\p{..}/\\P{..}, negation, subtraction; metacharacters and hyphens escaped) x a set of scalar values: ALL 1,112,064 scalar values in the thorough tier; in the quick tier all of U+0000-U+024F, every range/character boundary +-1, both ends of every run of equal general category, fixed boundary points and a seeded sample of 2,500. Oracle: set algebra evaluated per character on independent per-character predicates (no inversion lists). Also [c] = c, and the class under * / + / inside a group matches the same set (inputs of length <= 3). evaluations counts class expressions; membership tests are counted separately. Non-trivial: the expression has >= 2 items, a negation or a subtraction."
    }
    fn focus(&self, c: &Case, f: &Finding) -> Case {
        let mut c2 = c.clone();
        if let Some(i) = f.observed.find("U+") {
            let hex: String = f.observed[i + 2..].chars().take_while(|x| x.is_ascii_hexdigit()).collect();
            let raw = c.aux.as_deref().map_or(false, |a| a.ends_with(";rawhy"));
            c2.aux = Some(format!("chars:{}{}", hex, if raw { ";rawhy" } else { "" }));
        }
        c2
    }
    fn check(&self, c: &Case, obs: &mut Obs) -> Outcome {
        if c.aux.as_deref() == Some("spellings") {
            // oracle-free: [c], [c-c], [c-] and [cc] are the same set under every flag, whatever the
            // case relations of c are (c is the whole pattern text here)
            let ch = match c.pattern.chars().next() {
                Some(x) => x,
                None => return Outcome::Inconclusive("empty"),
            };
            let lit = Node::Char(ch).render();
            let spellings = [format!("^[{}]$", lit), format!("^[{}-{}]$", lit, lit), format!("^[{}-]$", lit), format!("^[{}{}]$", lit, lit), format!("^[^{}]$", lit)];
            let mut res: Vec<Vec<Option<bool>>> = vec![];
            let inputs: Vec<char> = c.input.chars().collect();
            for sp in &spellings {
                let re = match api(engine::compile(sp, &c.flags, c.dialect), "compile") {
                    Ok(Ok(r)) => r,
                    Ok(Err(e)) => return Outcome::Violated(vec![Finding::new("valid_class_rejected", format!("Err({}) for {:?}", e.name(), sp), "Ok")]),
                    Err(o) => return o,
                };
                let mut row = vec![];
                let mut buf = String::new();
                for x in &inputs {
                    buf.clear();
                    buf.push(*x);
                    row.push(engine::is_match(&re, &buf).ok());
                }
                res.push(row);
            }
            for (k, x) in inputs.iter().enumerate() {
                let base = res[0][k];
                for (j, sp) in spellings.iter().enumerate().take(4).skip(1) {
                    if res[j][k] != base && *x != '-' {
                        return Outcome::Violated(vec![Finding::new("class_spellings_differ", format!("{:?} on U+{:04X}: {:?}", sp, *x as u32, res[j][k]), format!("{:?}: {:?}", spellings[0], base))]);
                    }
                }
                if let (Some(a), Some(b)) = (base, res[4][k]) {
                    if a == b {
                        return Outcome::Violated(vec![Finding::new("class_and_complement_agree", format!("{:?} and {:?} on U+{:04X}: both {}", spellings[0], spellings[4], *x as u32, a), "complementary answers")]);
                    }
                }
            }
            obs.count("class_spellings_compared");
            obs.nontrivial(c.key());
            return Outcome::Held;
        }
        let ce = match ast_of(c) {
            Some(Node::Class(ce)) => ce,
            _ => return Outcome::Inconclusive("not_a_class_expression"),
        };
        let ci = c.flags.contains('i');
        let node = Node::Class(ce.clone());
        if ci && !node.ranges_case_regular() {
            return Outcome::Inconclusive("range_covers_irregular_case_mappings");
        }
        let mut text = node.render();
        let aux_full = c.aux.clone().unwrap_or_else(|| "quick:0".to_string());
        let raw_hyphen = aux_full.ends_with(";rawhy");
        if raw_hyphen {
            // a literal hyphen written unescaped at the start or the end of the group, where the
            // grammar reads it as a character ([a-], [-a], [^-a], [a-z-], [a-e-[c-]])
            let last_hy = |e: &ClassExpr| e.items.len() >= 2 && matches!(e.items.last(), Some(ClassItem::Ch('-')));
            if let Some(sub) = &ce.sub {
                if sub.sub.is_none() && last_hy(sub) && text.ends_with("\\-]]") {
                    text = format!("{}-]]", &text[..text.len() - 4]);
                }
            } else if last_hy(&ce) && text.ends_with("\\-]") {
                text = format!("{}-]", &text[..text.len() - 3]);
            }
            if ce.items.len() >= 2 && matches!(ce.items.first(), Some(ClassItem::Ch('-'))) {
                let lead = if ce.neg { "[^\\-" } else { "[\\-" };
                if text.starts_with(lead) {
                    text = format!("{}-{}", &lead[..lead.len() - 2], &text[lead.len()..]);
                }
            }
            if text.contains("\\-") {
                return Outcome::Inconclusive("raw_hyphen_not_at_group_edge");
            }
            obs.count("raw_hyphen_at_group_edge");
        }
        let pat = format!("^{}$", text);
        let re = match api(engine::compile(&pat, &c.flags, c.dialect), "compile") {
            Ok(Ok(r)) => r,
            Ok(Err(e)) => return Outcome::Violated(vec![Finding::new("valid_class_rejected", format!("Err({}) for {:?}", e.name(), pat), "Ok")]),
            Err(o) => return o,
        };
        let mut bounds = vec![];
        class_boundaries(&ce, &mut bounds);
        let aux = aux_full.trim_end_matches(";rawhy").to_string();
        let mut chars = char_set(&aux, &bounds);
        if ci {
            // only over the alphabets of clean one-to-one case pairs plus case-less characters (C11's alphabets)
            let mut v: Vec<char> = super::refprops::CI_LETTERS.iter().copied().filter(|x| *x != 'K').collect();
            v.extend(super::refprops::CI_LETTERS.iter().filter_map(|x| uoracle::case_partner(*x)).filter(|x| *x != 'k'));
            v.extend_from_slice(super::refprops::CI_CASELESS);
            v.extend(['a', 'A', 'b', 'B', 'z', 'Z', '0', '9']);
            chars = v;
        }
        let mut members = vec![];
        let mut buf = String::new();
        let mut n_in = 0u64;
        for ch in &chars {
            buf.clear();
            buf.push(*ch);
            let got = match engine::is_match(&re, &buf) {
                Ok(b) => b,
                Err(engine::Fail::Fuel) => return Outcome::Inconclusive("fuel"),
                Err(f) => return Outcome::Violated(vec![Finding::new("panic_is_match", format!("{} on U+{:04X}", f.describe(), *ch as u32), "a boolean")]),
            };
            let exp = class_match(&ce, *ch, ci);
            if got != exp {
                return Outcome::Violated(vec![Finding::new("class_membership_differs", format!("engine: U+{:04X} {}", *ch as u32, if got { "is a member" } else { "is not a member" }), format!("set algebra: U+{:04X} {}", *ch as u32, if exp { "is a member" } else { "is not a member" }))]);
            }
            if exp {
                n_in += 1;
                if members.len() < 3 {
                    members.push(*ch)
                }
            }
        }
        obs.add("membership_tests", chars.len() as u64);
        obs.add("members_seen", n_in);
        if aux == "all" {
            obs.count("classes_tested_on_all_scalar_values");
        }
        // the class as the whole, unanchored pattern: the search loop filters start positions by
        // the class's own set (the anchored form above never takes that path)
        if let Ok(Ok(ru)) = engine::compile(&text, &c.flags, c.dialect) {
            for ch in chars.iter().step_by(if aux == "all" { 101 } else { 3 }) {
                buf.clear();
                buf.push(*ch);
                let exp = class_match(&ce, *ch, ci);
                if engine::is_match(&ru, &buf).ok() != Some(exp) {
                    return Outcome::Violated(vec![Finding::new("class_membership_differs_unanchored", format!("engine: U+{:04X} with the bare class as pattern: {}", *ch as u32, !exp), format!("set algebra: {}", exp))]);
                }
            }
            obs.count("unanchored_class_checked");
        }
        // equivalences: quantified / grouped class = class alone; [c] = c
        let nonmember = chars.iter().copied().find(|x| !class_match(&ce, *x, ci));
        if let Some(m) = members.first() {
            let mm: String = [*m, *members.last().unwrap(), *m].iter().collect();
            for (p2, expect) in [(format!("^{}+$", text), true), (format!("^{}*$", text), true), (format!("^({}){{3}}$", text), true), (format!("^(?:{})*$", text), true)] {
                if let Ok(Ok(r2)) = engine::compile(&p2, &c.flags, c.dialect) {
                    if let Ok(g) = engine::is_match(&r2, &mm) {
                        obs.count("quantified_equivalence_checked");
                        if g != expect {
                            return Outcome::Violated(vec![Finding::new("class_under_quantifier_differs", format!("{:?} on three members: {}", p2, g), "true")]);
                        }
                    }
                    if let Some(nm) = nonmember {
                        let bad: String = [*m, nm, *m].iter().collect();
                        if let Ok(true) = engine::is_match(&r2, &bad) {
                            return Outcome::Violated(vec![Finding::new("class_under_quantifier_differs", format!("{:?} matches a string containing the non-member U+{:04X}", p2, nm as u32), "false")]);
                        }
                    }
                }
            }
        }
        if ce.items.len() == 1 && !ce.neg && ce.sub.is_none() {
            if let (ClassItem::Ch(x), false) = (ce.items[0].clone(), c.flags.contains('x') && matches!(ce.items[0], ClassItem::Ch(' '))) {
                // [c] matches the same characters as the literal c
                let lit = Node::Char(x).render();
                if let Ok(Ok(r3)) = engine::compile(&format!("^{}$", lit), &c.flags, c.dialect) {
                    for ch in chars.iter().take(2000) {
                        buf.clear();
                        buf.push(*ch);
                        if engine::is_match(&r3, &buf).ok() != engine::is_match(&re, &buf).ok() {
                            return Outcome::Violated(vec![Finding::new("single_char_class_differs_from_literal", format!("U+{:04X}", *ch as u32), "same membership for [c] and c")]);
                        }
                    }
                    obs.count("single_char_class_vs_literal_checked");
                }
            }
        }
        if ce.items.len() >= 2 || ce.neg || ce.sub.is_some() {
            obs.nontrivial(c.key());
        }
        if obs.want_sample() && (ce.items.len() >= 2 || ce.sub.is_some()) {
            obs.sample(c.to_json().with("characters_tested", J::u(chars.len() as u64)).with("members_among_them", J::u(n_in)));
        }
        Outcome::Held
    }
    fn workload(&self, w: &Work, emit: &mut dyn FnMut(Case)) -> J {
        let n = w.share(16_000, 16_000);
        let mut rng = w.rng("C09", 1);
        let alpha: Vec<char> = vec!['a', 'b', 'z', 'A', 'Z', '0', '9', ' ', ' ', '\t', '-', '^', ']', ']', '[', '\\', '\n', '\u{e9}', '\u{3b1}', '\u{3a9}', '\u{416}', '\u{2028}', '\u{d7ff}', '\u{e000}', '\u{ffff}', '\u{10000}', '\u{10400}', '\u{10ffff}', '\u{0}'];
        let cfg = GenCfg::std(&alpha);
        for k in 0..n {
            let ce = {
                let mut g = Gen::new(&mut rng, &cfg);
                g.class(if k % 3 == 0 { 0 } else { 1 })
            };
            let mut ce = ce;
            let raw_hyphen = k % 8 == 5;
            if raw_hyphen {
                // an unescaped hyphen as the last or first member (of the group or of its subtrahend)
                ce.items.retain(|it| !matches!(it, ClassItem::Ch('-')));
                if ce.items.is_empty() {
                    ce.items.push(ClassItem::Ch('a'));
                }
                match (rng.below(3), ce.sub.as_mut()) {
                    (0, _) => ce.items.insert(0, ClassItem::Ch('-')),
                    (1, Some(sub)) if sub.sub.is_none() => {
                        sub.items.retain(|it| !matches!(it, ClassItem::Ch('-')));
                        if sub.items.is_empty() {
                            sub.items.push(ClassItem::Ch('a'));
                        }
                        sub.items.push(ClassItem::Ch('-'));
                    }
                    _ => {
                        ce.sub = None;
                        ce.items.push(ClassItem::Ch('-'));
                    }
                }
            }
            let node = Node::Class(ce);
            // flag x must leave class members alone (whitespace, escaped brackets inside a class)
            let mut c = Case::new(&node, if k % 10 == 9 { "i" } else if k % 10 == 8 || k % 10 == 3 { "x" } else { "" }, "");
            c.aux = Some(if w.quick() { format!("quick:{}", rng.next() % 1000) } else { "all".to_string() });
            if raw_hyphen {
                c.aux = Some(format!("{};rawhy", c.aux.unwrap()));
            }
            emit(c);
        }
        // single characters with unusual case relations (title-case digraphs, Greek with iota
        // subscript, Kelvin, long s, final sigma ...) under flag i: every spelling of the one-member
        // class must agree on the character and on its case variants
        if w.shard == 0 || !w.quick() {
            let specials: Vec<char> = ['\u{1C4}', '\u{1C5}', '\u{1C6}', '\u{1C7}', '\u{1C8}', '\u{1C9}', '\u{1CA}', '\u{1CB}', '\u{1CC}', '\u{1F1}', '\u{1F2}', '\u{1F3}', '\u{1F80}', '\u{1F88}', '\u{1F8F}', '\u{1F98}', '\u{1FA8}', '\u{1FBC}', '\u{1FB3}', '\u{1FCC}', '\u{1FC3}', '\u{1FFC}', '\u{1FF3}', 'k', 'K', '\u{212A}', 's', 'S', '\u{17F}', '\u{3C3}', '\u{3C2}', '\u{3A3}', '\u{3C9}', '\u{3A9}', '\u{2126}', '\u{E5}', '\u{C5}', '\u{212B}', '\u{DF}', '\u{1E9E}', 'a', 'Z', '\u{10400}', '\u{10428}'].to_vec();
            for ch in &specials {
                let mut inp: Vec<char> = vec![*ch];
                inp.extend(ch.to_lowercase());
                inp.extend(ch.to_uppercase());
                for other in &specials {
                    if other.to_lowercase().eq(ch.to_lowercase()) || other.to_uppercase().eq(ch.to_uppercase()) {
                        inp.push(*other);
                    }
                }
                inp.push('x');
                inp.sort();
                inp.dedup();
                for fl in ["i", "", "ix"] {
                    let mut c = Case::raw(&ch.to_string(), fl, &inp.iter().collect::<String>());
                    c.aux = Some("spellings".to_string());
                    emit(c);
                }
            }
        }
        J::obj().with("class_expressions_this_shard", J::u(n)).with("scalar_values_per_class", J::s(if w.quick() { "U+0000-U+024F + boundaries +-1 + 2,500 sampled (about 3,200)" } else { "all 1,112,064" })).with("exhaustive_over_scalar_values", J::Bool(!w.quick()))
    }
    fn corpus(&self) -> Vec<Case> {
        let mut v = vec![];
        for (p, f) in [("[a-[\\s1]]", "i"), ("[a-z-[aeiou]]", ""), ("[^a-z]", ""), ("[\\p{L}-[\\p{Lu}]]", ""), ("[^\\d\\s]", ""), ("[\\-a]", ""), ("[a\\-]", ""), ("[\\^]", ""), ("[\\P{IsBasicLatin}-[\\p{IsGreek}]]", ""), ("[a]", ""), ("[\\i-[:]]", ""), ("[\\c-[\\i]]", "")] {
            let mut c = Case::raw(p, f, "");
            c.aux = Some("quick:1".to_string());
            v.push(c);
        }
        v
    }
}

// ------------------------------------------------------------------------------------------
pub struct C10;

/// the escapes under test: (pattern text, oracle)
fn escape_oracle(p: &str) -> Option<Box<dyn Fn(char) -> bool>> {
    let pc: Vec<char> = p.chars().collect();
    if pc.len() == 2 && pc[0] == '\\' && "sSdDwWiIcC".contains(pc[1]) {
        let e = pc[1];
        return Some(Box::new(move |c| uoracle::esc_match(e, c)));
    }
    if pc.len() > 4 && pc[0] == '\\' && (pc[1] == 'p' || pc[1] == 'P') && pc[2] == '{' && *pc.last().unwrap() == '}' {
        let pos = pc[1] == 'p';
        let name: String = pc[3..pc.len() - 1].iter().collect();
        if !uoracle::prop_name_known(&name) {
            return None;
        }
        return Some(Box::new(move |c| uoracle::prop_match(pos, &name, c).unwrap_or(false)));
    }
    None
}

pub fn all_escapes() -> Vec<String> {
    let mut v: Vec<String> = "sSdDwWiIcC".chars().map(|e| format!("\\{}", e)).collect();
    for n in uoracle::CATS1.iter().chain(uoracle::CATS2.iter()) {
        v.push(format!("\\p{{{}}}", n));
        v.push(format!("\\P{{{}}}", n));
    }
    let mut names: Vec<String> = uoracle::repo_blocks().iter().map(|b| b.lookup.clone()).collect();
    names.push("PrivateUse".to_string());
    names.sort();
    names.dedup();
    for n in names {
        v.push(format!("\\p{{Is{}}}", n));
        v.push(format!("\\P{{Is{}}}", n));
    }
    v
}

impl Monitor for C10 {
    fn rule(&self) -> &'static str {
        "a case = one escape (each of the 36 category names incl. one-letter groups, every block name of Blocks.txt / CompatBlocks.txt with spaces removed plus PrivateUse, \\d \\w \\s \\i \\c, and all complements) x a set of scalar values: ALL 1,112,064 in the thorough tier; in the quick tier U+0000-U+024F, every block boundary +-1, both ends of every run of equal general category, fixed boundary points and a seeded sample of 2,500. Oracle: icu_properties' per-code-point general-category trie mapped to names by a table in the harness, the XML 1.0 (5th ed.) name productions typed in from the specification, blocks parsed from the UCD text files. Oracle-free identities: exactly one two-letter category matches every scalar value; each one-letter group = union of its members; \\P \\D \\W \\S \\I \\C are complements. Unknown names (two-letter combinations not in the list, block names with one edited character) must be rejected. Non-trivial: every escape; distinct by escape and character set."
    }
    fn focus(&self, c: &Case, f: &Finding) -> Case {
        C09.focus(c, f)
    }
    fn check(&self, c: &Case, obs: &mut Obs) -> Outcome {
        let p = &c.pattern;
        if let Some(name) = p.strip_prefix("UNKNOWN:") {
            // must be rejected with Error::Syntax
            let pat = format!("\\p{{{}}}", name);
            return match api(engine::compile(&pat, "", c.dialect), "compile") {
                Ok(Err(engine::ErrKind::Syntax)) => {
                    obs.count("unknown_names_rejected");
                    obs.nontrivial(c.key());
                    Outcome::Held
                }
                Ok(Err(e)) => Outcome::Violated(vec![Finding::new("unknown_name_wrong_error", format!("Err({})", e.name()), "Err(Syntax)")]),
                Ok(Ok(_)) => Outcome::Violated(vec![Finding::new("unknown_name_accepted", format!("{:?} accepted", pat), "Err(Syntax)")]),
                Err(o) => o,
            };
        }
        if p == "IDENTITIES" {
            return self.identities(c, obs);
        }
        let oracle = match escape_oracle(p) {
            Some(o) => o,
            None => return Outcome::Inconclusive("not_an_escape"),
        };
        let pat = format!("^{}$", p);
        let re = match api(engine::compile(&pat, "", c.dialect), "compile") {
            Ok(Ok(r)) => r,
            Ok(Err(e)) => return Outcome::Violated(vec![Finding::new("known_escape_rejected", format!("Err({}) for {:?}", e.name(), pat), "Ok")]),
            Err(o) => return o,
        };
        let aux = c.aux.clone().unwrap_or_else(|| "quick:0".to_string());
        let chars = char_set(&aux, &block_boundaries());
        let mut buf = String::new();
        let mut n_in = 0u64;
        for ch in &chars {
            buf.clear();
            buf.push(*ch);
            let got = match engine::is_match(&re, &buf) {
                Ok(b) => b,
                Err(engine::Fail::Fuel) => return Outcome::Inconclusive("fuel"),
                Err(f) => return Outcome::Violated(vec![Finding::new("panic_is_match", format!("{} on U+{:04X}", f.describe(), *ch as u32), "a boolean")]),
            };
            let exp = oracle(*ch);
            if got != exp {
                return Outcome::Violated(vec![Finding::new("escape_membership_differs", format!("engine: U+{:04X} {}", *ch as u32, if got { "matches" } else { "does not match" }), format!("data: U+{:04X} {}", *ch as u32, if exp { "matches" } else { "does not match" }))]);
            }
            if exp {
                n_in += 1;
            }
        }
        obs.add("membership_tests", chars.len() as u64);
        obs.add("members_seen", n_in);
        if aux == "all" {
            obs.count("escapes_tested_on_all_scalar_values");
        }
        // the same escape as the whole (unanchored) pattern, without and with flag i: the search loop
        // filters start positions by the escape's own set, and flag i does not change what a
        // category, block or name-character escape matches
        for fl in ["", "i"] {
            if let Ok(Ok(ru)) = engine::compile(p, fl, c.dialect) {
                for ch in chars.iter().step_by(if aux == "all" { 53 } else { 2 }) {
                    buf.clear();
                    buf.push(*ch);
                    if engine::is_match(&ru, &buf).ok() != Some(oracle(*ch)) {
                        return Outcome::Violated(vec![Finding::new("escape_membership_differs_unanchored", format!("engine: U+{:04X} with the bare escape as pattern, flags {:?}: {}", *ch as u32, fl, !oracle(*ch)), format!("data: {}", oracle(*ch)))]);
                    }
                }
                obs.count("unanchored_escape_checked");
            }
        }
        // the same escape inside a class expression
        if let Ok(Ok(r2)) = engine::compile(&format!("^[{}]$", p), "", c.dialect) {
            for ch in chars.iter().step_by(if aux == "all" { 97 } else { 7 }) {
                buf.clear();
                buf.push(*ch);
                if engine::is_match(&r2, &buf).ok() != Some(oracle(*ch)) {
                    return Outcome::Violated(vec![Finding::new("escape_membership_differs", format!("engine: U+{:04X} inside [..]", *ch as u32), "same membership as outside a class")]);
                }
            }
        }
        // two escapes in one class expression denote the union: pair this escape with another one
        {
            let all = all_escapes();
            let other = &all[(crate::gen::hash_str(p) as usize) % all.len()];
            if let (Some(o2), Ok(Ok(r3))) = (escape_oracle(other), engine::compile(&format!("^[{}{}]$", p, other), "", c.dialect)) {
                for ch in chars.iter().step_by(if aux == "all" { 61 } else { 3 }) {
                    buf.clear();
                    buf.push(*ch);
                    let exp = oracle(*ch) || o2(*ch);
                    if engine::is_match(&r3, &buf).ok() != Some(exp) {
                        return Outcome::Violated(vec![Finding::new("escape_membership_differs", format!("engine: U+{:04X} in [{}{}] = {}", *ch as u32, p, other, !exp), format!("data: union of the two escapes = {}", exp))]);
                    }
                }
                obs.count("escape_pairs_in_one_class_checked");
            }
        }
        obs.nontrivial(c.key());
        if obs.want_sample() {
            obs.sample(c.to_json().with("characters_tested", J::u(chars.len() as u64)).with("members_among_them", J::u(n_in)));
        }
        Outcome::Held
    }
    fn workload(&self, w: &Work, emit: &mut dyn FnMut(Case)) -> J {
        let mut desc = J::obj();
        let esc = all_escapes();
        let mut rng = w.rng("C10", 1);
        let mut mine = 0u64;
        for (i, e) in esc.iter().enumerate() {
            if !w.mine(i as u64) {
                continue;
            }
            mine += 1;
            let mut c = Case::raw(e, "", "");
            // the name-character / digit / word / space escapes and the one-letter category groups are
            // tested on every scalar value even in the quick tier
            let small = e.chars().count() == 2 || e.chars().count() == 6;
            c.aux = Some(if w.quick() && !small { format!("quick:{}", (w.seed % 1000) + i as u64 % 7) } else { "all".to_string() });
            emit(c);
        }
        desc.set("escapes", J::obj().with("escapes_total", J::u(esc.len() as u64)).with("escapes_this_shard", J::u(mine)).with("exhaustive", J::Bool(true)).with("scalar_values_per_escape", J::s(if w.quick() { "U+0000-U+024F + block boundaries +-1 + 2,500 sampled (about 4,000)" } else { "all 1,112,064" })));
        // oracle-free identities over a slice of the code space per shard
        let mut c = Case::raw("IDENTITIES", "", "");
        c.aux = Some(if w.quick() { format!("quick:{}", 100 + w.shard) } else { format!("slice:{}:{}", w.shard, w.nshards) });
        emit(c);
        // unknown names
        let letters: Vec<char> = "LMNPZSCulotmndcespfikx".chars().collect();
        let mut unk = 0u64;
        if w.shard == 0 || !w.quick() {
            for a in &letters {
                for b in &letters {
                    let n: String = [*a, *b].iter().collect();
                    if !uoracle::is_category_name(&n) {
                        emit(Case::raw(&format!("UNKNOWN:{}", n), "", ""));
                        unk += 1;
                    }
                }
            }
            for x in ["X", "l", "Cs", "Is", "IsLatin", "IsNoSuchBlock", "isBasicLatin", "IsBasic Latin", "BasicLatin", "IsBasicLatin ", "", "Lu ", " Lu", "LU", "lu", "L&", "IsHighSurrogatesX"] {
                emit(Case::raw(&format!("UNKNOWN:{}", x), "", ""));
                unk += 1;
            }
        }
        let blocks = uoracle::repo_blocks();
        for _ in 0..w.share(400, 4000) {
            let b = rng.pick(blocks);
            let mut n: Vec<char> = format!("Is{}", b.lookup).chars().collect();
            let i = 2 + rng.below(n.len() - 2);
            match rng.below(3) {
                0 => {
                    n.remove(i);
                }
                1 => n.insert(i, *rng.pick(&['x', 'A', '-', ' '])),
                _ => n[i] = if n[i] == 'x' { 'y' } else { 'x' },
            }
            let name: String = n.into_iter().collect();
            if !uoracle::prop_name_known(&name) {
                emit(Case::raw(&format!("UNKNOWN:{}", name), "", ""));
                unk += 1;
            }
        }
        desc.set("unknown_names_this_shard", J::u(unk));
        desc
    }
    fn corpus(&self) -> Vec<Case> {
        let mut v = vec![];
        for p in ["\\p{Lu}", "\\P{Lu}", "\\p{IsPrivateUse}", "\\p{IsGreek}", "\\p{IsGreekandCoptic}", "\\w", "\\i", "\\c", "\\p{IsLatin-1Supplement}", "\\p{IsCombiningMarksforSymbols}", "\\p{IsHighSurrogates}"] {
            let mut c = Case::raw(p, "", "");
            c.aux = Some("quick:2".to_string());
            v.push(c);
        }
        v
    }
    fn shrink_text(&self) -> bool {
        true
    }
}

impl C10 {
    /// oracle-free partition / union / complement identities
    fn identities(&self, c: &Case, obs: &mut Obs) -> Outcome {
        let aux = c.aux.clone().unwrap_or_default();
        let chars: Vec<char> = if let Some(rest) = aux.strip_prefix("slice:") {
            let mut it = rest.split(':');
            let k: u32 = it.next().and_then(|x| x.parse().ok()).unwrap_or(0);
            let n: u32 = it.next().and_then(|x| x.parse().ok()).unwrap_or(1);
            all_scalars().filter(|ch| (*ch as u32) % n == k).collect()
        } else {
            char_set(&aux, &block_boundaries())
        };
        let comp = |p: &str| -> Option<regexml::Regex> { engine::compile(&format!("^{}$", p), "", c.dialect).ok().and_then(|r| r.ok()) };
        let two: Vec<(String, regexml::Regex)> = match uoracle::CATS2.iter().map(|n| comp(&format!("\\p{{{}}}", n)).map(|r| (n.to_string(), r))).collect::<Option<Vec<_>>>() {
            Some(v) => v,
            None => return Outcome::Violated(vec![Finding::new("known_escape_rejected", "a two-letter category is rejected".to_string(), "Ok")]),
        };
        let one: Vec<(String, regexml::Regex)> = match uoracle::CATS1.iter().map(|n| comp(&format!("\\p{{{}}}", n)).map(|r| (n.to_string(), r))).collect::<Option<Vec<_>>>() {
            Some(v) => v,
            None => return Outcome::Violated(vec![Finding::new("known_escape_rejected", "a one-letter category is rejected".to_string(), "Ok")]),
        };
        let pairs: Vec<(String, regexml::Regex, regexml::Regex)> = [("\\d", "\\D"), ("\\w", "\\W"), ("\\s", "\\S"), ("\\i", "\\I"), ("\\c", "\\C"), ("\\p{L}", "\\P{L}"), ("\\p{Nd}", "\\P{Nd}"), ("\\p{IsBasicLatin}", "\\P{IsBasicLatin}")].iter().filter_map(|(a, b)| Some((a.to_string(), comp(a)?, comp(b)?))).collect();
        let mut buf = String::new();
        for ch in &chars {
            buf.clear();
            buf.push(*ch);
            let m = |r: &regexml::Regex| engine::is_match(r, &buf).unwrap_or(false);
            let hits: Vec<&str> = two.iter().filter(|(_, r)| m(r)).map(|(n, _)| n.as_str()).collect();
            if hits.len() != 1 {
                return Outcome::Violated(vec![Finding::new("categories_do_not_partition", format!("engine: U+{:04X} is matched by {:?}", *ch as u32, hits), "exactly one two-letter category")]);
            }
            for (g, r) in &one {
                let by_members = hits[0].starts_with(g.as_str());
                if m(r) != by_members {
                    return Outcome::Violated(vec![Finding::new("group_not_union_of_members", format!("engine: U+{:04X} \\p{{{}}} = {} but its category is {}", *ch as u32, g, m(r), hits[0]), "group = union of its two-letter members")]);
                }
            }
            for (name, a, b) in &pairs {
                if m(a) == m(b) {
                    return Outcome::Violated(vec![Finding::new("complement_escape_not_complement", format!("engine: U+{:04X} {} and its complement both {}", *ch as u32, name, m(a)), "exactly one of the two matches")]);
                }
            }
        }
        obs.add("identity_characters", chars.len() as u64);
        obs.nontrivial(c.key());
        Outcome::Held
    }
}
