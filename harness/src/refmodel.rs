// Reference semantics over the AST. No code shared with the engine.
//  * set semantics ("match relation"): all (end, captures) reachable from a start position;
//    order-independent by construction;
//  * ordered semantics: Perl-order backtracking (earlier alternative first, greedy = more first,
//    reluctant = fewer first, earlier term dominates, captures of the selected path).
use crate::ast::*;
use crate::uoracle::{eq_ci, esc_match, lower1, prop_match, upper1};
use std::collections::HashSet;

#[derive(Clone, Copy, Debug, Default, PartialEq, Eq, Hash)]
pub struct Flags {
    pub i: bool,
    pub m: bool,
    pub s: bool,
    /// XSD dialect: ^ and $ are ordinary characters (the AST then has Char('^')), nothing else changes
    pub xsd: bool,
}

impl Flags {
    pub fn parse(f: &str) -> Flags {
        Flags { i: f.contains('i'), m: f.contains('m'), s: f.contains('s'), xsd: false }
    }
}

pub type Env = Vec<Option<(usize, usize)>>;

pub const BUDGET: usize = 2_000_000;

#[derive(Debug)]
pub struct Exhausted;

pub fn class_match(ce: &ClassExpr, c: char, fi: bool) -> bool {
    let mut pos = false;
    for it in &ce.items {
        let hit = match it {
            ClassItem::Ch(x) => {
                if fi {
                    eq_ci(*x, c)
                } else {
                    *x == c
                }
            }
            ClassItem::Range(a, b) => {
                let inr = |x: char| *a <= x && x <= *b;
                if fi {
                    inr(c) || inr(lower1(c)) || inr(upper1(c))
                } else {
                    inr(c)
                }
            }
            ClassItem::Esc(e) => esc_match(*e, c),
            ClassItem::Prop(p, n) => prop_match(*p, n, c).unwrap_or(false),
        };
        if hit {
            pos = true;
            break;
        }
    }
    let mut res = pos != ce.neg;
    if let Some(s) = &ce.sub {
        res = res && !class_match(s, c, fi);
    }
    res
}

enum R {
    Empty,
    Char(char),
    Dot,
    Esc(char),
    Prop(bool, String),
    Class(ClassExpr),
    Bol,
    Eol,
    Group(usize, Box<R>),
    Cat(Vec<R>),
    Alt(Vec<R>),
    Repeat { body: Box<R>, min: usize, max: Option<usize>, greedy: bool, groups: Vec<usize> },
    Backref(usize),
}

pub struct Model {
    root: R,
    pub ngroups: usize,
    pub flags: Flags,
    pub has_backref: bool,
    /// some quantifier is applied to a body that can match the empty string
    pub quantified_nullable: bool,
    /// capture semantics inside loops: false = captures persist across iterations (Perl, Java);
    /// true = groups inside a quantified body are unset at the start of every iteration
    /// (ECMAScript). The specification does not settle this and the repository's suite has
    /// expectations of both kinds, so monitors judge a case only where both readings agree.
    pub reset_in_loop: bool,
}

impl Model {
    pub fn new(n: &Node, flags: Flags) -> Model {
        let mut g = 0;
        let root = Self::conv(n, &mut g);
        Model { root, ngroups: g, flags, has_backref: n.has_backref(), quantified_nullable: n.has_quantified_nullable(), reset_in_loop: false }
    }
    pub fn with_reset(mut self) -> Model {
        self.reset_in_loop = true;
        self
    }
    /// the capture-semantics readings that can differ for this pattern
    pub fn readings(n: &Node, flags: Flags) -> Vec<Model> {
        let mut v = vec![Model::new(n, flags)];
        if n.has_group_in_loop() {
            v.push(Model::new(n, flags).with_reset());
        }
        v
    }
    fn iter_env(&self, env: &Env, groups: &[usize]) -> Env {
        let mut e = env.clone();
        if self.reset_in_loop {
            for g in groups {
                e[*g] = None;
            }
        }
        e
    }
    fn conv(n: &Node, g: &mut usize) -> R {
        match n {
            Node::Empty => R::Empty,
            Node::Char(c) => R::Char(*c),
            Node::Dot => R::Dot,
            Node::Esc(e) => R::Esc(*e),
            Node::Prop(p, name) => R::Prop(*p, name.clone()),
            Node::Class(ce) => R::Class(ce.clone()),
            Node::Bol => R::Bol,
            Node::Eol => R::Eol,
            Node::Group(b) => {
                *g += 1;
                let my = *g;
                R::Group(my, Box::new(Self::conv(b, g)))
            }
            Node::NcGroup(b) => Self::conv(b, g),
            Node::Cat(v) => R::Cat(v.iter().map(|x| Self::conv(x, g)).collect()),
            Node::Alt(v) => R::Alt(v.iter().map(|x| Self::conv(x, g)).collect()),
            Node::Repeat { body, min, max, greedy, .. } => {
                let first = *g + 1;
                let b = Self::conv(body, g);
                R::Repeat { body: Box::new(b), min: *min, max: *max, greedy: *greedy, groups: (first..=*g).collect() }
            }
            Node::Backref(k) => R::Backref(*k),
        }
    }

    fn pred(&self, n: &R, x: char) -> Option<bool> {
        Some(match n {
            R::Char(c) => {
                if self.flags.i {
                    eq_ci(x, *c)
                } else {
                    x == *c
                }
            }
            R::Dot => self.flags.s || (x != '\n' && x != '\r'),
            R::Esc(e) => esc_match(*e, x),
            R::Prop(p, name) => prop_match(*p, name, x).unwrap_or(false),
            R::Class(ce) => class_match(ce, x, self.flags.i),
            _ => return None,
        })
    }
    fn bol(&self, s: &[char], p: usize) -> bool {
        p == 0 || (self.flags.m && s[p - 1] == '\n' && p < s.len())
    }
    fn eol(&self, s: &[char], p: usize) -> bool {
        p == s.len() || (self.flags.m && s[p] == '\n')
    }
    fn backref_end(&self, s: &[char], p: usize, env: &Env, k: usize) -> Option<usize> {
        match env.get(k).copied().flatten() {
            None => Some(p),
            Some((a, b)) => {
                let l = b - a;
                if p + l > s.len() {
                    return None;
                }
                for j in 0..l {
                    let (x, y) = (s[a + j], s[p + j]);
                    if !(x == y || (self.flags.i && eq_ci(x, y))) {
                        return None;
                    }
                }
                Some(p + l)
            }
        }
    }

    // ---------- ordered semantics (continuation-passing backtracking) ----------
    fn m(&self, n: &R, s: &[char], p: usize, env: &Env, steps: &mut usize, k: &mut dyn FnMut(usize, &Env, &mut usize) -> bool) -> bool {
        *steps += 1;
        if *steps > BUDGET {
            return false;
        }
        match n {
            R::Empty => k(p, env, steps),
            R::Char(_) | R::Dot | R::Esc(_) | R::Prop(..) | R::Class(_) => p < s.len() && self.pred(n, s[p]).unwrap() && k(p + 1, env, steps),
            R::Bol => self.bol(s, p) && k(p, env, steps),
            R::Eol => self.eol(s, p) && k(p, env, steps),
            R::Backref(g) => match self.backref_end(s, p, env, *g) {
                Some(e) => k(e, env, steps),
                None => false,
            },
            R::Group(g, b) => {
                let g = *g;
                self.m(b, s, p, env, steps, &mut |e, env2, steps| {
                    let mut env3 = env2.clone();
                    env3[g] = Some((p, e));
                    k(e, &env3, steps)
                })
            }
            R::Alt(v) => {
                for b in v {
                    if self.m(b, s, p, env, steps, k) {
                        return true;
                    }
                }
                false
            }
            R::Cat(v) => self.cat(v, 0, s, p, env, steps, k),
            R::Repeat { body, min, max, greedy, groups } => self.rep(body, groups, *min, *max, *greedy, 0, s, p, env, steps, k),
        }
    }
    #[allow(clippy::too_many_arguments)]
    fn cat(&self, v: &[R], i: usize, s: &[char], p: usize, env: &Env, steps: &mut usize, k: &mut dyn FnMut(usize, &Env, &mut usize) -> bool) -> bool {
        if i == v.len() {
            return k(p, env, steps);
        }
        self.m(&v[i], s, p, env, steps, &mut |e, env2, steps| self.cat(v, i + 1, s, e, env2, steps, k))
    }
    #[allow(clippy::too_many_arguments)]
    fn rep(&self, body: &R, groups: &[usize], min: usize, max: Option<usize>, greedy: bool, count: usize, s: &[char], p: usize, env: &Env, steps: &mut usize, k: &mut dyn FnMut(usize, &Env, &mut usize) -> bool) -> bool {
        let can_more = max.map_or(true, |m| count < m);
        let ienv = self.iter_env(env, groups);
        if count < min {
            // mandatory iteration (an empty iteration is allowed here)
            return self.m(body, s, p, &ienv, steps, &mut |e, env2, steps| self.rep(body, groups, min, max, greedy, count + 1, s, e, env2, steps, k));
        }
        if greedy {
            if can_more {
                let r = self.m(body, s, p, &ienv, steps, &mut |e, env2, steps| {
                    if e == p {
                        return false; // optional empty iteration (only reachable for nullable bodies = weak domain)
                    }
                    self.rep(body, groups, min, max, greedy, count + 1, s, e, env2, steps, k)
                });
                if r {
                    return true;
                }
            }
            k(p, env, steps)
        } else {
            if k(p, env, steps) {
                return true;
            }
            if can_more {
                return self.m(body, s, p, &ienv, steps, &mut |e, env2, steps| {
                    if e == p {
                        return false;
                    }
                    self.rep(body, groups, min, max, greedy, count + 1, s, e, env2, steps, k)
                });
            }
            false
        }
    }

    /// ordered match anchored at start `st`
    pub fn match_ordered_at(&self, s: &[char], st: usize, steps: &mut usize) -> Result<Option<(usize, Env)>, Exhausted> {
        let env: Env = vec![None; self.ngroups + 1];
        let mut res = None;
        self.m(&self.root, s, st, &env, steps, &mut |e, env2, _| {
            res = Some((e, env2.clone()));
            true
        });
        if *steps > BUDGET {
            return Err(Exhausted);
        }
        Ok(res)
    }

    /// first match at or after `from` under ordered semantics: (start, end, env)
    pub fn find_ordered(&self, s: &[char], from: usize) -> Result<Option<(usize, usize, Env)>, Exhausted> {
        let mut steps = 0;
        for st in from..=s.len() {
            if let Some((e, env)) = self.match_ordered_at(s, st, &mut steps)? {
                return Ok(Some((st, e, env)));
            }
        }
        Ok(None)
    }

    // ---------- set semantics ----------
    fn ends(&self, n: &R, s: &[char], p: usize, env: &Env, steps: &mut usize) -> Vec<(usize, Env)> {
        *steps += 1;
        if *steps > BUDGET {
            return vec![];
        }
        match n {
            R::Empty => vec![(p, env.clone())],
            R::Char(_) | R::Dot | R::Esc(_) | R::Prop(..) | R::Class(_) => {
                if p < s.len() && self.pred(n, s[p]).unwrap() {
                    vec![(p + 1, env.clone())]
                } else {
                    vec![]
                }
            }
            R::Bol => {
                if self.bol(s, p) {
                    vec![(p, env.clone())]
                } else {
                    vec![]
                }
            }
            R::Eol => {
                if self.eol(s, p) {
                    vec![(p, env.clone())]
                } else {
                    vec![]
                }
            }
            R::Backref(g) => match self.backref_end(s, p, env, *g) {
                Some(e) => vec![(e, env.clone())],
                None => vec![],
            },
            R::Group(g, b) => {
                let mut out = vec![];
                for (e, mut env2) in self.ends(b, s, p, env, steps) {
                    env2[*g] = Some((p, e));
                    out.push((e, env2));
                }
                dedup(out)
            }
            R::Alt(v) => {
                let mut out = vec![];
                for b in v {
                    out.extend(self.ends(b, s, p, env, steps));
                }
                dedup(out)
            }
            R::Cat(v) => {
                let mut cur = vec![(p, env.clone())];
                for x in v {
                    let mut nxt = vec![];
                    for (q, e) in &cur {
                        nxt.extend(self.ends(x, s, *q, e, steps));
                    }
                    cur = dedup(nxt);
                    if cur.is_empty() {
                        break;
                    }
                }
                cur
            }
            R::Repeat { body, min, max, groups, .. } => {
                // breadth-first over states (count, pos, env); count is clamped to `min` when the
                // quantifier is unbounded so that nullable bodies reach a fix-point
                let mut seen: HashSet<(usize, usize, Env)> = HashSet::new();
                let mut frontier = vec![(0usize, p, env.clone())];
                seen.insert((0, p, env.clone()));
                let mut out = vec![];
                let mut iter = 0usize;
                while !frontier.is_empty() {
                    for (c, q, e) in &frontier {
                        if *c >= *min {
                            out.push((*q, e.clone()));
                        }
                    }
                    iter += 1;
                    if let Some(m) = max {
                        if iter > *m {
                            break;
                        }
                    }
                    let mut nf = vec![];
                    for (c, q, e) in &frontier {
                        for (q2, e2) in self.ends(body, s, *q, &self.iter_env(e, groups), steps) {
                            let key = if max.is_some() { (*c + 1, q2, e2) } else { ((*c + 1).min(*min), q2, e2) };
                            if seen.insert(key.clone()) {
                                nf.push(key);
                            }
                        }
                    }
                    frontier = nf;
                    if *steps > BUDGET {
                        break;
                    }
                }
                dedup(out)
            }
        }
    }

    /// all (end, env) reachable from start `st`
    pub fn all_ends(&self, s: &[char], st: usize) -> Result<Vec<(usize, Env)>, Exhausted> {
        let mut steps = 0;
        let env: Env = vec![None; self.ngroups + 1];
        let r = self.ends(&self.root, s, st, &env, &mut steps);
        if steps > BUDGET {
            Err(Exhausted)
        } else {
            Ok(r)
        }
    }

    pub fn is_match_set(&self, s: &[char]) -> Result<bool, Exhausted> {
        for st in 0..=s.len() {
            if !self.all_ends(s, st)?.is_empty() {
                return Ok(true);
            }
        }
        Ok(false)
    }

    /// does the pattern match the zero-length string (set semantics on the empty input)
    pub fn nullable_dynamic(&self) -> Result<bool, Exhausted> {
        Ok(!self.all_ends(&[], 0)?.is_empty())
    }

    /// leftmost start >= from with a non-empty relation
    pub fn leftmost_start(&self, s: &[char], from: usize) -> Result<Option<usize>, Exhausted> {
        for st in from..=s.len() {
            if !self.all_ends(s, st)?.is_empty() {
                return Ok(Some(st));
            }
        }
        Ok(None)
    }

    /// ordered scan along the input as replace/tokenize/analyze do it: list of (start, end, env).
    /// Err(Some(pos)) if a zero-length match is selected at pos (pattern matches empty there).
    pub fn scan_ordered(&self, s: &[char]) -> Result<Result<Vec<(usize, usize, Env)>, usize>, Exhausted> {
        let mut out = vec![];
        let mut pos = 0;
        while pos < s.len() {
            match self.find_ordered(s, pos)? {
                None => break,
                Some((st, e, env)) => {
                    if st == e {
                        return Ok(Err(st));
                    }
                    out.push((st, e, env));
                    pos = e;
                }
            }
        }
        Ok(Ok(out))
    }
}

fn dedup(v: Vec<(usize, Env)>) -> Vec<(usize, Env)> {
    if v.len() < 2 {
        return v;
    }
    let mut seen = HashSet::new();
    let mut out = vec![];
    for x in v {
        if seen.insert(x.clone()) {
            out.push(x);
        }
    }
    out
}
