// Self-validation of the oracles (run by setup_cmd and by every check's driver):
//  1. the reference model reproduces the is_match expectations of the repository's own tests
//     (pins the oracle to the maintainers' reading of the specification);
//  2. parse(render(ast)) == ast for generated ASTs (renderer and independent parser agree);
//  3. ordered semantics and set semantics agree on is_match, and the ordered match is a member
//     of the match relation.
use crate::ast::Node;
use crate::gen::*;
use crate::grammar::{self, Parsed};
use crate::json::J;
use crate::refmodel::{Flags, Model};

/// scan a Rust string literal starting at s[i] (i at '"' or 'r'); returns (value, next index)
fn rust_lit(s: &[char], i: usize) -> Option<(String, usize)> {
    let mut i = i;
    if s.get(i) == Some(&'r') {
        let mut hashes = 0;
        i += 1;
        while s.get(i) == Some(&'#') {
            hashes += 1;
            i += 1;
        }
        if s.get(i) != Some(&'"') {
            return None;
        }
        i += 1;
        let mut out = String::new();
        loop {
            let c = *s.get(i)?;
            if c == '"' {
                let mut k = 0;
                while k < hashes && s.get(i + 1 + k) == Some(&'#') {
                    k += 1;
                }
                if k == hashes {
                    return Some((out, i + 1 + hashes));
                }
            }
            out.push(c);
            i += 1;
        }
    }
    if s.get(i) != Some(&'"') {
        return None;
    }
    i += 1;
    let mut out = String::new();
    loop {
        let c = *s.get(i)?;
        i += 1;
        match c {
            '"' => return Some((out, i)),
            '\\' => {
                let e = *s.get(i)?;
                i += 1;
                match e {
                    'n' => out.push('\n'),
                    'r' => out.push('\r'),
                    't' => out.push('\t'),
                    '0' => out.push('\0'),
                    '\\' => out.push('\\'),
                    '"' => out.push('"'),
                    '\'' => out.push('\''),
                    'x' => {
                        let h: String = s[i..i + 2].iter().collect();
                        i += 2;
                        out.push(char::from_u32(u32::from_str_radix(&h, 16).ok()?)?);
                    }
                    'u' => {
                        // \u{...}
                        if s.get(i) != Some(&'{') {
                            return None;
                        }
                        let mut j = i + 1;
                        let mut h = String::new();
                        while *s.get(j)? != '}' {
                            h.push(s[j]);
                            j += 1;
                        }
                        i = j + 1;
                        out.push(char::from_u32(u32::from_str_radix(&h, 16).ok()?)?);
                    }
                    '\n' => {
                        // line continuation: skip leading whitespace
                        while matches!(s.get(i), Some(c) if c.is_whitespace()) {
                            i += 1;
                        }
                    }
                    _ => return None,
                }
            }
            c => out.push(c),
        }
    }
}

fn skip_ws(s: &[char], mut i: usize) -> usize {
    while matches!(s.get(i), Some(c) if c.is_whitespace()) {
        i += 1;
    }
    i
}

fn starts_with(s: &[char], i: usize, t: &str) -> bool {
    let v: Vec<char> = t.chars().collect();
    s.len() >= i + v.len() && s[i..i + v.len()] == v[..]
}

#[derive(Debug)]
pub struct Expectation {
    pub file: String,
    pub pattern: String,
    pub flags: String,
    pub input: String,
    pub expected: bool,
}

/// extract (pattern, flags, input, expected) is_match assertions from a test source file
pub fn extract(file: &str, text: &str) -> Vec<Expectation> {
    let s: Vec<char> = text.chars().collect();
    let mut out = vec![];
    let mut cur: Option<(String, String)> = None;
    let mut i = 0;
    while i < s.len() {
        if starts_with(&s, i, "fn test") {
            cur = None;
        }
        if starts_with(&s, i, "Regex::xpath(") {
            let j = skip_ws(&s, i + "Regex::xpath(".len());
            if let Some((p, k)) = rust_lit(&s, j) {
                let k = skip_ws(&s, k);
                if s.get(k) == Some(&',') {
                    let k = skip_ws(&s, k + 1);
                    if let Some((f, k2)) = rust_lit(&s, k) {
                        cur = Some((p, f));
                        i = k2;
                        continue;
                    }
                }
            }
            cur = None;
        }
        if starts_with(&s, i, "assert!(") {
            let mut j = skip_ws(&s, i + "assert!(".len());
            let neg = s.get(j) == Some(&'!');
            if neg {
                j += 1;
            }
            if starts_with(&s, j, "regex.is_match(") {
                let k = skip_ws(&s, j + "regex.is_match(".len());
                if let (Some((inp, k2)), Some((p, f))) = (rust_lit(&s, k), cur.clone()) {
                    if s.get(skip_ws(&s, k2)) == Some(&')') {
                        out.push(Expectation { file: file.to_string(), pattern: p, flags: f, input: inp, expected: !neg });
                    }
                    i = k2;
                    continue;
                }
            }
        }
        i += 1;
    }
    out
}

/// expectations of the repository's suite that contradict the property texts (documented in
/// DESIGN.md §8): the suite asserts the engine's defective answer.
const REPO_ASSERTS_DEFECT: &[(&str, &str)] = &[("^(.*)+B", "AB")];

pub fn main(args: &[String]) -> i32 {
    let repo = args.iter().position(|a| a == "--repo").and_then(|i| args.get(i + 1).cloned()).unwrap_or("/repo".to_string());
    let mut ok = true;
    let mut report = J::obj();

    // 1. repository expectations
    let dir = format!("{}/regexml/tests", repo);
    let mut total = 0;
    let mut checked = 0;
    let mut skipped: std::collections::BTreeMap<String, u64> = Default::default();
    let mut mismatches = vec![];
    let mut files: Vec<_> = std::fs::read_dir(&dir).map(|d| d.filter_map(|e| e.ok()).map(|e| e.path()).collect()).unwrap_or_default();
    files.sort();
    for f in files {
        let text = match std::fs::read_to_string(&f) {
            Ok(t) => t,
            Err(_) => continue,
        };
        for e in extract(&f.file_name().unwrap().to_string_lossy(), &text) {
            total += 1;
            if e.flags.contains('q') || e.flags.contains(';') {
                *skipped.entry("flag q or ;".into()).or_insert(0) += 1;
                continue;
            }
            let ast = match grammar::parse(&e.pattern, false, e.flags.contains('x')) {
                Parsed::Valid(a) => a,
                Parsed::Invalid(r) => {
                    *skipped.entry(format!("recogniser says invalid: {}", r)).or_insert(0) += 1;
                    mismatches.push(format!("{}: pattern {:?} unwrapped by the suite but invalid for the recogniser ({})", e.file, e.pattern, r));
                    continue;
                }
                Parsed::Unsure(r) => {
                    *skipped.entry(format!("unsure: {}", r)).or_insert(0) += 1;
                    continue;
                }
            };
            let model = Model::new(&ast, Flags::parse(&e.flags));
            let input: Vec<char> = e.input.chars().collect();
            // characters with one-to-many / many-to-one case mappings are outside the oracle's claim domain
            if e.flags.contains('i') && (e.pattern.chars().chain(e.input.chars())).any(|c| !c.is_ascii() && crate::uoracle::case_partner(c).is_none() && (crate::uoracle::lower1(c) != c || crate::uoracle::upper1(c) != c)) {
                *skipped.entry("irregular case mapping under i".into()).or_insert(0) += 1;
                continue;
            }
            // capture semantics inside loops is disputed: judge only where both readings agree
            if ast.has_backref() && ast.has_group_in_loop() {
                let alt = Model::new(&ast, Flags::parse(&e.flags)).with_reset();
                if let (Ok(a), Ok(b)) = (model.is_match_set(&input), alt.is_match_set(&input)) {
                    if a != b {
                        *skipped.entry("capture semantics in loops disputed (readings differ)".into()).or_insert(0) += 1;
                        continue;
                    }
                }
            }
            match model.is_match_set(&input) {
                Err(_) => {
                    *skipped.entry("oracle budget".into()).or_insert(0) += 1;
                }
                Ok(b) => {
                    checked += 1;
                    if b != e.expected {
                        if REPO_ASSERTS_DEFECT.contains(&(e.pattern.as_str(), e.input.as_str())) {
                            *skipped.entry("repo asserts documented defect".into()).or_insert(0) += 1;
                        } else {
                            mismatches.push(format!("{}: {:?} flags {:?} on {:?}: suite expects {}, model says {}", e.file, e.pattern, e.flags, e.input, e.expected, b));
                        }
                    }
                }
            }
        }
    }
    let mut sk = J::obj();
    for (k, v) in &skipped {
        sk.set(k, J::u(*v));
    }
    report.set("repo_expectations_found", J::u(total));
    report.set("repo_expectations_checked", J::u(checked));
    report.set("repo_expectations_skipped", sk);
    report.set("repo_expectation_mismatches", J::arr_str(&mismatches));
    if !mismatches.is_empty() || checked < 500 {
        ok = false;
    }

    // 2 + 3. generated ASTs
    let mut rng = Rng::derive(12345, &[1]);
    let cfg = GenCfg::std(STD_ALPHA);
    let mut rt_fail = vec![];
    let mut sem_fail = vec![];
    let n = 6000;
    for k in 0..n {
        let ast = if k % 3 == 0 { gen_shortcut(&mut rng, &cfg) } else { gen_pattern(&mut rng, &cfg) };
        let text = ast.render();
        match grammar::parse(&text, false, false) {
            Parsed::Valid(a2) => {
                if a2.normalize() != strip_nc(&ast).normalize() && rt_fail.len() < 5 {
                    // compare modulo non-capturing groups the renderer inserts for precedence
                    if strip_nc(&a2).normalize() != strip_nc(&ast).normalize() {
                        rt_fail.push(format!("{:?}: parsed {:?} != generated {:?}", text, strip_nc(&a2).normalize(), strip_nc(&ast).normalize()));
                    }
                }
            }
            other => {
                if rt_fail.len() < 5 {
                    rt_fail.push(format!("{:?}: {:?}", text, other))
                }
            }
        }
        let fl = super::props::FLAG_SUBSETS[rng.below(8)];
        let model = Model::new(&ast, Flags::parse(fl));
        for _ in 0..2 {
            let inp: Vec<char> = gen_input(&mut rng, &ast, STD_EXTRA, 6).chars().collect();
            let set = model.is_match_set(&inp);
            let ord = model.find_ordered(&inp, 0);
            if let (Ok(sb), Ok(o)) = (set, ord) {
                // ordered semantics rejects optional empty iterations, which cannot change is_match -
                // unless a back-reference reads a group that such an iteration would have emptied
                // (the capture readings of section 9.1 differ there; the monitors call that disputed)
                let disputed = ast.has_backref() && ast.has_group_in_quant();
                if sb != o.is_some() && !disputed && sem_fail.len() < 5 {
                    sem_fail.push(format!("{:?} flags {:?} input {:?}: set={} ordered={:?}", text, fl, inp, sb, o.as_ref().map(|x| (x.0, x.1))));
                }
                if let Some((st, e, env)) = o {
                    let ends = model.all_ends(&inp, st).unwrap_or_default();
                    if !ends.iter().any(|(e2, env2)| *e2 == e && *env2 == env) && !ends.is_empty() && sem_fail.len() < 5 {
                        // membership of the exact env can fail only through the optional-empty-iteration rule
                        if !ends.iter().any(|(e2, _)| *e2 == e) {
                            sem_fail.push(format!("{:?} flags {:?} input {:?}: ordered match ({},{}) not in relation", text, fl, inp, st, e));
                        }
                    }
                }
            }
        }
    }
    report.set("roundtrip_cases", J::u(n));
    report.set("roundtrip_failures", J::arr_str(&rt_fail));
    report.set("semantics_agreement_failures", J::arr_str(&sem_fail));
    if !rt_fail.is_empty() || !sem_fail.is_empty() {
        ok = false;
    }
    report.set("ok", J::Bool(ok));
    println!("{}", report.to_string());
    if ok {
        0
    } else {
        1
    }
}

/// remove non-capturing groups (transparent for the semantics; the renderer inserts them for precedence)
pub fn strip_nc(n: &Node) -> Node {
    match n {
        Node::NcGroup(b) => strip_nc(b),
        Node::Group(b) => Node::Group(Box::new(strip_nc(b))),
        Node::Cat(v) => Node::Cat(v.iter().map(strip_nc).collect()),
        Node::Alt(v) => Node::Alt(v.iter().map(strip_nc).collect()),
        Node::Repeat { body, min, max, greedy, spell } => Node::Repeat { body: Box::new(strip_nc(body)), min: *min, max: *max, greedy: *greedy, spell: *spell },
        o => o.clone(),
    }
}
