// Witness minimiser: greedy delta debugging on flags, input, replacement, and pattern
// (AST steps when an AST is available, character deletion otherwise).
use crate::ast::*;
use crate::core::Case;

/// all one-step simplifications of a node (at any position)
pub fn candidates(n: &Node) -> Vec<Node> {
    let mut out = vec![];
    match n {
        Node::Empty => {}
        Node::Char(c) => {
            if *c != 'a' {
                out.push(Node::Char('a'));
            }
        }
        Node::Dot | Node::Esc(_) | Node::Prop(..) | Node::Bol | Node::Eol | Node::Backref(_) => {
            out.push(Node::Empty);
            out.push(Node::Char('a'));
        }
        Node::Class(ce) => {
            out.push(Node::Char('a'));
            for it in &ce.items {
                if let ClassItem::Ch(c) = it {
                    out.push(Node::Char(*c));
                }
            }
            if ce.neg {
                let mut c2 = ce.clone();
                c2.neg = false;
                out.push(Node::Class(c2));
            }
            if ce.sub.is_some() {
                let mut c2 = ce.clone();
                c2.sub = None;
                out.push(Node::Class(c2));
                out.push(Node::Class((**ce.sub.as_ref().unwrap()).clone()));
            }
            if ce.items.len() > 1 {
                for i in 0..ce.items.len() {
                    let mut c2 = ce.clone();
                    c2.items.remove(i);
                    out.push(Node::Class(c2));
                }
            }
            for (i, it) in ce.items.iter().enumerate() {
                if let ClassItem::Range(a, b) = it {
                    for x in [*a, *b] {
                        let mut c2 = ce.clone();
                        c2.items[i] = ClassItem::Ch(x);
                        out.push(Node::Class(c2));
                    }
                } else if !matches!(it, ClassItem::Ch(_)) {
                    let mut c2 = ce.clone();
                    c2.items[i] = ClassItem::Ch('a');
                    out.push(Node::Class(c2));
                }
            }
        }
        Node::Group(b) => {
            out.push((**b).clone());
            out.push(Node::NcGroup(b.clone()));
        }
        Node::NcGroup(b) => out.push((**b).clone()),
        Node::Cat(v) | Node::Alt(v) => {
            for x in v {
                out.push(x.clone());
            }
            if v.len() > 1 {
                for i in 0..v.len() {
                    let mut v2 = v.clone();
                    v2.remove(i);
                    let nn = if v2.len() == 1 {
                        v2.pop().unwrap()
                    } else if matches!(n, Node::Cat(_)) {
                        Node::Cat(v2)
                    } else {
                        Node::Alt(v2)
                    };
                    out.push(nn);
                }
            }
        }
        Node::Repeat { body, min, max, greedy, spell } => {
            out.push((**body).clone());
            out.push(Node::Empty);
            let mut push = |mn: usize, mx: Option<usize>, g: bool| {
                if (mn, mx, g) != (*min, *max, *greedy) || *spell != 0 {
                    out.push(Node::Repeat { body: body.clone(), min: mn, max: mx, greedy: g, spell: 0 });
                }
            };
            if !*greedy {
                push(*min, *max, true);
            }
            push(0, None, *greedy);
            push(1, None, *greedy);
            push(0, Some(1), *greedy);
            if *min > 0 {
                push(*min - 1, *max, *greedy);
            }
            if let Some(m) = max {
                if *m > *min && *m > 1 {
                    push(*min, Some(*m - 1), *greedy);
                }
            }
        }
    }
    match n {
        Node::Group(b) => out.extend(candidates(b).into_iter().map(|c| Node::Group(Box::new(c)))),
        Node::NcGroup(b) => out.extend(candidates(b).into_iter().map(|c| Node::NcGroup(Box::new(c)))),
        Node::Cat(v) | Node::Alt(v) => {
            for i in 0..v.len() {
                for c in candidates(&v[i]) {
                    let mut v2 = v.clone();
                    v2[i] = c;
                    out.push(if matches!(n, Node::Cat(_)) { Node::Cat(v2) } else { Node::Alt(v2) });
                }
            }
        }
        Node::Repeat { body, min, max, greedy, spell } => {
            out.extend(candidates(body).into_iter().map(|c| Node::Repeat { body: Box::new(c), min: *min, max: *max, greedy: *greedy, spell: *spell }))
        }
        _ => {}
    }
    out.into_iter().filter(|n| n.valid_backrefs()).collect()
}

fn weight(n: &Node) -> usize {
    n.render().chars().count() + 4 * n.size()
}

fn str_candidates(s: &str) -> Vec<String> {
    let v: Vec<char> = s.chars().collect();
    let mut out = vec![];
    // halves first, then single deletions, then canonicalisation
    if v.len() > 3 {
        out.push(v[..v.len() / 2].iter().collect());
        out.push(v[v.len() / 2..].iter().collect());
    }
    for i in 0..v.len() {
        let mut w = v.clone();
        w.remove(i);
        out.push(w.into_iter().collect());
    }
    for i in 0..v.len() {
        if v[i] != 'a' && !crate::ast::META.contains(&v[i]) {
            let mut w = v.clone();
            w[i] = 'a';
            out.push(w.into_iter().collect());
        }
    }
    out
}

/// Minimise `case` while `fails` stays true. Returns (minimised case, complete?).
/// `allow_ast`: monitors whose verdict depends on the exact pattern text (grammar, whitespace)
/// shrink the text, not the AST.
pub fn shrink(case: &Case, fails: &mut dyn FnMut(&Case) -> bool, budget: usize) -> (Case, bool) {
    let mut cur = case.clone();
    let mut budget = budget as isize;
    loop {
        let mut progress = false;
        // flags
        let fl: Vec<char> = cur.flags.chars().collect();
        for i in 0..fl.len() {
            let mut f2 = fl.clone();
            f2.remove(i);
            let mut c2 = cur.clone();
            c2.flags = f2.into_iter().collect();
            budget -= 1;
            if fails(&c2) {
                cur = c2;
                progress = true;
                break;
            }
        }
        // input
        for s2 in str_candidates(&cur.input) {
            if budget <= 0 {
                break;
            }
            let mut c2 = cur.clone();
            c2.input = s2;
            budget -= 1;
            if fails(&c2) {
                cur = c2;
                progress = true;
                break;
            }
        }
        // replacement
        if let Some(r) = cur.repl.clone() {
            for s2 in str_candidates(&r) {
                if budget <= 0 {
                    break;
                }
                let mut c2 = cur.clone();
                c2.repl = Some(s2);
                budget -= 1;
                if fails(&c2) {
                    cur = c2;
                    progress = true;
                    break;
                }
            }
        }
        // pattern
        if let Some(ast) = cur.ast.clone() {
            let w = weight(&ast);
            let mut cands = candidates(&ast);
            cands.sort_by_key(weight);
            cands.dedup();
            for c in cands {
                if weight(&c) >= w {
                    continue;
                }
                budget -= 1;
                if budget <= 0 {
                    break;
                }
                let c2 = cur.with_ast(&c);
                if fails(&c2) {
                    cur = c2;
                    progress = true;
                    break;
                }
            }
        } else {
            for s2 in str_candidates(&cur.pattern) {
                if budget <= 0 {
                    break;
                }
                if s2.chars().count() >= cur.pattern.chars().count() && s2 != cur.pattern {
                    // canonicalisation step: allowed
                }
                let mut c2 = cur.clone();
                c2.pattern = s2;
                budget -= 1;
                if fails(&c2) {
                    cur = c2;
                    progress = true;
                    break;
                }
            }
        }
        if budget <= 0 {
            return (cur, false);
        }
        if !progress {
            return (cur, true);
        }
    }
}
