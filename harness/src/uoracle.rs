// Independent Unicode / XML-name / block oracle.
// General categories come from icu_properties' per-code-point trie (a different API and data
// structure than the sets::for_general_category_group path the engine uses); XML name
// productions are typed in from XML 1.0 (5th ed.) §2.3; blocks are parsed from the UCD text
// files shipped in the repository.
use icu_properties::{maps, GeneralCategory as GC};
use std::sync::OnceLock;

pub fn gc2(c: char) -> &'static str {
    static MAP: OnceLock<maps::CodePointMapDataBorrowed<'static, GC>> = OnceLock::new();
    let m = MAP.get_or_init(maps::general_category);
    match m.get(c) {
        GC::Unassigned => "Cn",
        GC::UppercaseLetter => "Lu",
        GC::LowercaseLetter => "Ll",
        GC::TitlecaseLetter => "Lt",
        GC::ModifierLetter => "Lm",
        GC::OtherLetter => "Lo",
        GC::NonspacingMark => "Mn",
        GC::SpacingMark => "Mc",
        GC::EnclosingMark => "Me",
        GC::DecimalNumber => "Nd",
        GC::LetterNumber => "Nl",
        GC::OtherNumber => "No",
        GC::SpaceSeparator => "Zs",
        GC::LineSeparator => "Zl",
        GC::ParagraphSeparator => "Zp",
        GC::Control => "Cc",
        GC::Format => "Cf",
        GC::PrivateUse => "Co",
        GC::Surrogate => "Cs",
        GC::DashPunctuation => "Pd",
        GC::OpenPunctuation => "Ps",
        GC::ClosePunctuation => "Pe",
        GC::ConnectorPunctuation => "Pc",
        GC::InitialPunctuation => "Pi",
        GC::FinalPunctuation => "Pf",
        GC::OtherPunctuation => "Po",
        GC::MathSymbol => "Sm",
        GC::CurrencySymbol => "Sc",
        GC::ModifierSymbol => "Sk",
        GC::OtherSymbol => "So",
    }
}

pub const CATS2: &[&str] = &[
    "Lu", "Ll", "Lt", "Lm", "Lo", "Mn", "Mc", "Me", "Nd", "Nl", "No", "Pc", "Pd", "Ps", "Pe", "Pi", "Pf", "Po", "Zs", "Zl", "Zp", "Sm", "Sc", "Sk", "So", "Cc", "Cf", "Co", "Cn",
];
pub const CATS1: &[&str] = &["L", "M", "N", "P", "Z", "S", "C"];

pub fn is_category_name(name: &str) -> bool {
    CATS2.contains(&name) || CATS1.contains(&name)
}

/// membership of c in \p{name} for a category name (1 or 2 letters); None if the name is unknown
pub fn in_category(name: &str, c: char) -> Option<bool> {
    if !is_category_name(name) {
        return None;
    }
    let g = gc2(c);
    Some(if name.len() == 1 { g.starts_with(name) } else { g == name })
}

pub fn is_xml_space(c: char) -> bool {
    matches!(c, ' ' | '\t' | '\n' | '\r')
}

/// XML 1.0 5th edition, production [4] NameStartChar
pub fn is_name_start_char(c: char) -> bool {
    let u = c as u32;
    c == ':'
        || c == '_'
        || c.is_ascii_alphabetic()
        || (0xC0..=0xD6).contains(&u)
        || (0xD8..=0xF6).contains(&u)
        || (0xF8..=0x2FF).contains(&u)
        || (0x370..=0x37D).contains(&u)
        || (0x37F..=0x1FFF).contains(&u)
        || (0x200C..=0x200D).contains(&u)
        || (0x2070..=0x218F).contains(&u)
        || (0x2C00..=0x2FEF).contains(&u)
        || (0x3001..=0xD7FF).contains(&u)
        || (0xF900..=0xFDCF).contains(&u)
        || (0xFDF0..=0xFFFD).contains(&u)
        || (0x10000..=0xEFFFF).contains(&u)
}

/// XML 1.0 5th edition, production [4a] NameChar
pub fn is_name_char(c: char) -> bool {
    let u = c as u32;
    is_name_start_char(c) || c == '-' || c == '.' || c.is_ascii_digit() || u == 0xB7 || (0x300..=0x36F).contains(&u) || (0x203F..=0x2040).contains(&u)
}

/// multi-character escape letters: s S d D w W i I c C
pub fn esc_match(e: char, c: char) -> bool {
    let r = match e.to_ascii_lowercase() {
        's' => is_xml_space(c),
        'd' => gc2(c) == "Nd",
        'w' => {
            let g = gc2(c);
            !(g.starts_with('P') || g.starts_with('Z') || g.starts_with('C'))
        }
        'i' => is_name_start_char(c),
        'c' => is_name_char(c),
        _ => panic!("unknown escape {}", e),
    };
    if e.is_ascii_uppercase() {
        !r
    } else {
        r
    }
}

#[derive(Clone, Debug)]
pub struct Block {
    pub name: String,   // as in the text file
    pub lookup: String, // spaces (and underscores) removed
    pub start: u32,
    pub end: u32,
}

pub fn parse_blocks_file(text: &str) -> Vec<Block> {
    let mut v = vec![];
    for line in text.lines() {
        let line = line.trim();
        if line.is_empty() || line.starts_with('#') {
            continue;
        }
        let mut f = line.split(';');
        let range = f.next().unwrap().trim();
        let name = f.next().unwrap_or("").trim().to_string();
        let mut r = range.split("..");
        let start = u32::from_str_radix(r.next().unwrap(), 16).unwrap();
        let end = u32::from_str_radix(r.next().unwrap(), 16).unwrap();
        let lookup: String = name.chars().filter(|c| *c != ' ' && *c != '_').collect();
        v.push(Block { name, lookup, start, end });
    }
    v
}

pub fn repo_blocks() -> &'static Vec<Block> {
    static B: OnceLock<Vec<Block>> = OnceLock::new();
    B.get_or_init(|| {
        let root = std::env::var("RXV_REPO").unwrap_or_else(|_| "/repo".to_string());
        let mut v = vec![];
        for f in ["Blocks.txt", "CompatBlocks.txt"] {
            let p = format!("{}/regexml-ucd-blocks/src/{}", root, f);
            let t = std::fs::read_to_string(&p).unwrap_or_else(|e| panic!("cannot read {}: {}", p, e));
            v.extend(parse_blocks_file(&t));
        }
        v
    })
}

/// membership in \p{IsName}; None if the block name is unknown
pub fn in_block(name: &str, c: char) -> Option<bool> {
    let u = c as u32;
    if name == "PrivateUse" {
        // XSD 1.1 part 2 §G.4.2.3
        return Some((0xE000..=0xF8FF).contains(&u) || (0xF0000..=0xFFFFD).contains(&u) || (0x100000..=0x10FFFD).contains(&u));
    }
    // later entries (compat names) may shadow earlier ones with the same lookup name
    let mut res = None;
    for b in repo_blocks() {
        if b.lookup == name {
            res = Some((b.start..=b.end).contains(&u));
        }
    }
    res
}

/// \p{X} / \P{X} membership for a property name (category or IsBlock); None if unknown
pub fn prop_match(pos: bool, name: &str, c: char) -> Option<bool> {
    let r = if let Some(b) = name.strip_prefix("Is") {
        if name.len() <= 2 {
            in_category(name, c)?
        } else {
            in_block(b, c)?
        }
    } else {
        in_category(name, c)?
    };
    Some(r == pos)
}

pub fn prop_name_known(name: &str) -> bool {
    prop_match(true, name, 'a').is_some()
}

pub fn all_scalars() -> impl Iterator<Item = char> {
    (0u32..=0x10FFFF).filter_map(char::from_u32)
}

// ---- simple case mapping used by the reference model (one-to-one mappings only) ----
pub fn lower1(c: char) -> char {
    let mut it = c.to_lowercase();
    let a = it.next().unwrap();
    if it.next().is_some() {
        c
    } else {
        a
    }
}
pub fn upper1(c: char) -> char {
    let mut it = c.to_uppercase();
    let a = it.next().unwrap();
    if it.next().is_some() {
        c
    } else {
        a
    }
}
pub fn eq_ci(a: char, b: char) -> bool {
    a == b || lower1(a) == lower1(b) || upper1(a) == upper1(b)
}
/// the simple case counterpart of c if c belongs to a clean one-to-one pair, else None
pub fn case_partner(c: char) -> Option<char> {
    let l = lower1(c);
    let u = upper1(c);
    let p = if l != c {
        l
    } else if u != c {
        u
    } else {
        return None;
    };
    // clean pair: partner maps back, and neither has a third variant
    let (lo, up) = if l != c { (l, c) } else { (c, u) };
    if lower1(up) == lo && upper1(lo) == up && lower1(lo) == lo && upper1(up) == up {
        Some(p)
    } else {
        None
    }
}

/// characters that some OTHER character folds into although they are not partners (K <- KELVIN
/// SIGN, ω/Ω <- OHM SIGN, д/Д <- U+1C81, s <- ſ, ...): computed once over all scalar values
fn third_variant_targets() -> &'static std::collections::HashSet<char> {
    static T: OnceLock<std::collections::HashSet<char>> = OnceLock::new();
    T.get_or_init(|| {
        let mut set = std::collections::HashSet::new();
        for x in all_scalars() {
            let l = lower1(x);
            let u = upper1(x);
            for y in [l, u] {
                if y != x {
                    // x folds to y; if x is not y's clean partner, y (and its partner) are irregular
                    if case_partner(y) != Some(x) {
                        set.insert(y);
                        if let Some(p) = case_partner(y) {
                            set.insert(p);
                        }
                        set.insert(x);
                    }
                }
            }
            // multi-character mappings (ß -> SS, ŉ, ǰ, ...) make the character irregular
            if x.to_lowercase().count() > 1 || x.to_uppercase().count() > 1 {
                set.insert(x);
            }
        }
        set
    })
}

/// case-less, or a member of a one-to-one case pair that no third character folds into
pub fn case_regular(c: char) -> bool {
    if third_variant_targets().contains(&c) {
        return false;
    }
    match case_partner(c) {
        Some(p) => !third_variant_targets().contains(&p),
        None => lower1(c) == c && upper1(c) == c,
    }
}
