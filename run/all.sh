#!/bin/bash
# run every check of MANIFEST.json in the given tier; prints one summary line per property
tier=${1:-quick}
cd "$(dirname "$0")/.."
for i in $(seq -w 1 20); do
  p=C$i
  out=$(python3 run/check.py $p --tier $tier 2>&1); rc=$?
  echo "$p rc=$rc $(echo "$out" | grep -c '^VIOLATION') violations, $(echo "$out" | grep -c '^KNOWN-FINDING') known; $(echo "$out" | tail -1 | cut -c1-200)"
  if [ $rc -ne 0 ]; then echo "$out" | grep -v '^KNOWN' | head -12 | cut -c1-300; fi
done
