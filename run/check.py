#!/usr/bin/env python3
"""Driver of the runtime-monitoring checks for Paligo/regexml.

  check.py <Cxx> --tier quick|thorough     run the check of one property
  check.py replay <witness.json>           re-run one recorded witness
  check.py setup                           build the harness and run the oracle self-test

Exit codes: 0 = held on everything explored (known findings are printed, not alarms);
            1 = violation (one 'VIOLATION property=<id> replay=<path>' line per witness);
            2 = the check could not do its job (build failure, oracle self-test failure,
                too little observed): inconclusive, never reported as a violation.
"""
import array
import hashlib
import json
import os
import resource
import shutil
import signal
import subprocess
import sys
import time

VERIF = os.path.dirname(os.path.dirname(os.path.abspath(__file__)))
HARNESS = os.path.join(VERIF, "harness")
TARGET = os.path.join(VERIF, "target", "main")
RXV = os.path.join(TARGET, "verif", "rxv")
REPO = os.environ.get("RXV_REPO", "/repo")
NPROC = int(os.environ.get("VERIF_JOBS", os.cpu_count() or 4))
LOGS = os.path.join(VERIF, "logs")

ENV = dict(os.environ, CARGO_NET_OFFLINE="true", CARGO_TARGET_DIR=TARGET)
ENV.pop("RUSTFLAGS", None)  # the harness' .cargo/config.toml supplies --cfg regexml_verif

# per property: time caps (s, per shard) and floors
DEFAULT_CFG = {"quick_cap": 180, "thorough_cap": 1500, "min_held": 1000, "min_distinct": 500}
CFG = {
    "C05": {"fuel": 2_000_000},
    "C06": {"fuel": 200_000_000},
    "C09": {"min_held": 200, "min_distinct": 100},
    "C10": {"min_held": 200, "min_distinct": 100},
    "C18": {"min_held": 100, "min_distinct": 50},
}
# probes / counters that must have been observed for the run to count (property -> {counter: minimum})
REQUIRED = {
    "C07": {"hyphen_edge_oracle_valid": 1000, "oracle_valid": 1000, "oracle_invalid": 1000, "flags_invalid": 100, "accepted_construct_backref": 50, "accepted_construct_class": 100, "accepted_construct_class_subtraction": 20, "accepted_construct_negated_class": 50, "accepted_construct_prop": 50, "accepted_construct_esc": 50, "accepted_construct_repeat_reluctant": 100, "accepted_construct_repeat_greedy": 100, "accepted_construct_ncgroup": 100, "accepted_construct_group": 100, "accepted_construct_alt": 100, "accepted_construct_bol": 50, "accepted_construct_eol": 50, "accepted_construct_dot": 50, "accepted_construct_quantified_anchor": 10},
    "C08": {"irregular_case_letters_compared": 1000, "program_has_prefix": 100, "program_has_initial_class": 100, "program_has_min_length": 100, "program_has_preconditions": 100, "program_has_bol_fast_path": 100, "op_UnambiguousRepeat": 100, "op_GreedyFixed": 100, "op_ReluctantFixed": 100, "op_Repeat": 100, "fact_invariants_checked": 1000},
    "C02": {"self_scan_with_matches": 1000, "self_scan_match_not_at_offset_0": 200, "strict_domain": 1000, "weak_domain": 100, "cases_with_several_matches": 500},
    "C03": {"line_anchored_several_matches": 200, "groups_judged": 1000, "groups_nonempty_capture_seen": 200, "analyze_presence_judged": 200, "analyze_vs_replace_consistency_checked": 1000},
    "C04": {"adjacent_matches": 200, "match_at_offset_0": 200, "match_at_end": 200, "cases_without_match": 200, "xsd_dialect": 200},
    "C12": {"anchor_in_alternative": 500, "flag_insensitivity_checked": 500, "oracle_true": 500, "oracle_false": 500},
    "C13": {"literal_self_match_checked": 1000, "literal_present_several_times": 100, "literal_absent": 100, "extra_flag_ignored_checked": 500},
    "C15": {"group_participation_judged_by_reference": 500, "replacement_valid": 200, "replacement_invalid": 200, "more_than_9_groups": 100, "input_several_matches": 100, "input_no_match": 100},
    "C16": {"xsd_oracle_nullable": 200, "xsd_oracle_not_nullable": 200, "oracle_nullable": 500, "oracle_not_nullable": 500, "literal_patterns": 50},
    "C17": {"flag_gate": 50, "gate_or_invalid": 500, "xsd_accepted_valid": 500, "dialects_compared": 500, "literal_anchor_checked": 100},
    "C18": {"iterators_retired_out_of_order": 100, "cross_object_probes": 50, "block_table_init_races": 1, "first_use_order_probes": 1, "iterators_kept_alive_across_calls": 100, "overlapping_call_pairs": 1, "fresh_results_cross_checked_with_reference": 100},
    "C19": {"literal_twin_matches": 500, "literal_twin_does_not_match": 200, "with_backref": 1000, "groups_judged": 500},
    "C20": {"spans_compared": 500},
    "C11": {"literal_case_blind_matches": 500, "literal_oracle_false": 200, "case_swap_twins": 1000, "monotonic_checked": 200, "oracle_true": 500, "oracle_false": 500},
    "C06": {"inside_bounds": 1000, "longer_inputs_for_zero_width_runs": 1000, "zero_width_iterations_observed": 1000},
    "C14": {"xsd_dialect_whitespace_inserted": 300, "whitespace_inserted": 1000, "base_rejected": 100},
    "C09": {"class_spellings_compared": 50, "unanchored_class_checked": 500, "membership_tests": 100000, "quantified_equivalence_checked": 100, "raw_hyphen_at_group_edge": 200},
    "C10": {"unanchored_escape_checked": 500, "membership_tests": 100000, "unknown_names_rejected": 100, "identity_characters": 1000, "escape_pairs_in_one_class_checked": 100},
    "C05": {"compiled_ok": 1000, "compile_rejected": 1000, "structured_cases": 1000},
    "C01": {"probe_prefix_scan": 100, "probe_initial_class": 100, "probe_min_length_cut": 100, "probe_precondition_reject": 100, "probe_bol_single_line": 100, "probe_bol_multi_line": 100, "oracle_true": 500, "oracle_false": 500},
}


def cfg(prop, key):
    return CFG.get(prop, {}).get(key, DEFAULT_CFG.get(key))


def log(msg):
    print(msg, flush=True)


def build():
    """(Re)build the harness against /repo's current working tree, hooks enabled."""
    lock_src = os.path.join(REPO, "Cargo.lock")
    lock_dst = os.path.join(HARNESS, "Cargo.lock")
    if not os.path.exists(lock_dst) and os.path.exists(lock_src):
        shutil.copy(lock_src, lock_dst)
    t0 = time.time()
    p = subprocess.run(["cargo", "build", "--offline", "--profile", "verif"], cwd=HARNESS, env=ENV, stdout=subprocess.PIPE, stderr=subprocess.STDOUT, text=True)
    if p.returncode != 0:
        log(p.stdout[-6000:])
        log("BUILD-FAILED: the harness (or /repo/regexml with --cfg regexml_verif) does not compile")
        return False
    log("build ok in %.1fs" % (time.time() - t0))
    return True


def selftest():
    p = subprocess.run([RXV, "selftest", "--repo", REPO], stdout=subprocess.PIPE, stderr=subprocess.STDOUT, text=True, env=dict(ENV, RXV_REPO=REPO))
    try:
        rep = json.loads(p.stdout.strip().splitlines()[-1])
    except Exception:
        log(p.stdout[-3000:])
        return None
    if p.returncode != 0 or not rep.get("ok"):
        log("oracle self-test FAILED: " + json.dumps(rep)[:3000])
        return None
    return rep


def load_known():
    path = os.path.join(VERIF, "known_findings.json")
    if not os.path.exists(path):
        return {"findings": []}
    with open(path) as f:
        return json.load(f)


CANARY_SEED = 771177
CANARY_SHARDS = 16


def canary_key(v):
    c = v.get("original_case") or v["case"]
    return "|".join([v["kind"], c.get("pattern", ""), c.get("flags", ""), c.get("dialect", ""), c.get("replacement", "") or "", c.get("aux", "") or ""])


def load_canaries():
    path = os.path.join(VERIF, "known_canaries.json")
    if not os.path.exists(path):
        return {}
    with open(path) as f:
        data = json.load(f)
    return {p: {e["key"]: e["finding"] for e in lst} for p, lst in data.get("properties", {}).items()}


def record(prop, known, can_reports, can_incidents):
    """(Manual step, never run by a check.) Rewrite the list of fixed-seed cases that fail on the
    current tree for one property. Only failures that fall under an open finding's signature are
    recorded; anything else is printed and left out, so it keeps raising an alarm."""
    path = os.path.join(VERIF, "known_canaries.json")
    data = {"comment": "Failures of the fixed-seed ('canary') workload of each check on the tree the open findings of known_findings.json were recorded on; identified by exact (kind, pattern, flags, dialect, replacement, aux). Read-only at run time; rewritten only by 'check.py <Cxx> --record-canaries'.", "canary_seed": CANARY_SEED, "logical_shards": CANARY_SHARDS, "properties": {}}
    if os.path.exists(path):
        with open(path) as f:
            data = json.load(f)
    entries = {}
    bad = 0
    allv = [v for r in can_reports.values() for v in r["violations"]]
    attributed = attribute(prop, known, allv)
    for v, (hit, _how) in zip(allv, attributed):
        if True:
            if hit:
                entries[canary_key(v)] = {"key": canary_key(v), "finding": hit["id"], "kind": v["kind"], "pattern": (v.get("original_case") or v["case"]).get("pattern"), "minimised": v["case"].get("pattern")}
            else:
                bad += 1
                log("NOT RECORDED (no open finding matches): %s %s" % (v["kind"], describe_case(v["case"])))
    data["properties"][prop] = sorted(entries.values(), key=lambda e: e["key"])
    with open(path, "w") as f:
        json.dump(data, f, indent=0, ensure_ascii=True)
    log("recorded %d canary failures for %s (%d not recorded)" % (len(entries), prop, bad))
    return 0 if bad == 0 else 1


def matches_signature(v, finding, prop):
    """Is violation v (from the worker) attributable to the open finding?"""
    if finding.get("status") != "open":
        return False
    if prop not in finding.get("properties", []):
        return False
    sig = finding.get("signature", {})
    def kmatch(k):
        return v["kind"] == k or (k.endswith("*") and v["kind"].startswith(k[:-1]))

    if any(kmatch(k) for k in sig.get("kinds_exclude", [])):
        return False
    kinds = sig.get("kinds")
    if kinds and not any(v["kind"] == k or (k.endswith("*") and v["kind"].startswith(k[:-1])) for k in kinds):
        return False
    facts = v.get("facts", {})
    for k, want in sig.get("facts", {}).items():
        if facts.get(k) != want:
            return False
    for k, least in sig.get("min_facts", {}).items():
        if not isinstance(facts.get(k), int) or facts.get(k) < least:
            return False
    any_of = sig.get("facts_any")
    if any_of and not any(facts.get(k) == want for k, want in any_of.items()):
        return False
    for k, sub in sig.get("observed_contains", {}).items():
        if sub not in v.get(k, ""):
            return False
    return True


def ablation_replay(prop, items):
    """items: list of (violation, mask). Re-check each minimised witness with the ablation switches
    of the mask on (hook H5), in parallel batches. Returns one of 'gone', 'other', 'same',
    'inconclusive' per item. A batch process that dies or exceeds its time budget leaves its
    unanswered items 'inconclusive' (never a verdict)."""
    if not items:
        return []
    os.makedirs(LOGS, exist_ok=True)
    nproc = min(16, max(1, len(items) // 8 + 1))
    chunks = [items[i::nproc] for i in range(nproc)]
    procs = []
    for ci, chunk in enumerate(chunks):
        fin = os.path.join(LOGS, "ablate-%s-%d-%d.in" % (prop, os.getpid(), ci))
        fout = os.path.join(LOGS, "ablate-%s-%d-%d.out" % (prop, os.getpid(), ci))
        with open(fin, "w") as f:
            for v, mask in chunk:
                f.write(json.dumps({"case": v["case"], "kind": v["kind"], "observed": v.get("observed", ""), "mask": mask}) + "\n")
        if os.path.exists(fout):
            os.unlink(fout)
        p = subprocess.Popen([RXV, "ablate", "--prop", prop, "--file", fin, "--out", fout, "--fuel", "20000000"], stdout=subprocess.DEVNULL, stderr=subprocess.DEVNULL, env=dict(ENV, RXV_REPO=REPO))
        procs.append((p, fin, fout, len(chunk)))
    results = [None] * len(items)
    deadline = time.time() + 60 + 2 * max(len(c) for c in chunks)
    for ci, (p, fin, fout, n) in enumerate(procs):
        try:
            p.wait(timeout=max(1, deadline - time.time()))
        except subprocess.TimeoutExpired:
            p.kill()
            p.wait()
        lines = []
        try:
            with open(fout) as f:
                lines = [l.strip() for l in f if l.strip()]
        except Exception:
            pass
        for k in range(n):
            results[ci + k * nproc] = lines[k] if k < len(lines) and lines[k] in ("gone", "other", "same", "inconclusive") else "inconclusive"
        for path in (fin, fout):
            try:
                os.unlink(path)
            except Exception:
                pass
    return results


def reminimise(prop, violations, outdir):
    """Minimise witnesses the workers left as found: feed them to one worker as a corpus (corpus
    cases are minimised first, with a budget large enough for all of them) and pick the minimised
    forms out of its report by their original case. A witness the worker does not report again
    is returned unchanged."""
    os.makedirs(outdir, exist_ok=True)
    corp = os.path.join(outdir, "reminimise-corpus.json")
    out = os.path.join(outdir, "reminimise-report.json")
    with open(corp, "w") as f:
        json.dump([v.get("original_case") or v["case"] for v in violations], f)
    cmd = [RXV, "run", "--prop", prop, "--tier", "quick", "--seed", "1", "--shard", "0", "--nshards", "1000000", "--scale", "0.000001", "--corpus", corp, "--max-shrink", str(len(violations) + 200), "--out", out, "--time-cap", "1200"]
    try:
        subprocess.run(cmd, stdout=subprocess.DEVNULL, stderr=subprocess.DEVNULL, env=dict(ENV, RXV_REPO=REPO), timeout=1500)
        with open(out) as f:
            rep = json.load(f)
    except Exception:
        return violations
    by_orig = {}
    for m in rep.get("violations", []):
        key = (m["kind"], json.dumps(m.get("original_case") or m["case"], sort_keys=True))
        by_orig.setdefault(key, m)
    res = []
    for v in violations:
        key = (v["kind"], json.dumps(v.get("original_case") or v["case"], sort_keys=True))
        res.append(by_orig.get(key, v))
    return res


def attribute(prop, known, violations):
    """Attribute minimised witnesses to open findings. A finding explains a witness if its structural
    signature matches and - when the finding names an ablation mask - the witness stops failing in
    that way once the mechanism the finding blames is switched off. Findings are tried in file
    order; the first one that explains the witness wins. Returns (finding or None, how) per witness,
    how in {'signature', 'ablation', 'ablation_inconclusive'}."""
    cands = []
    for v in violations:
        cands.append([f for f in known["findings"] if matches_signature(v, f, prop)])
    out = [None] * len(violations)
    pos = [0] * len(violations)
    while True:
        batch = []
        for i, v in enumerate(violations):
            if out[i] is not None:
                continue
            while pos[i] < len(cands[i]):
                f = cands[i][pos[i]]
                if not f.get("ablation"):
                    out[i] = (f, "signature")
                    break
                batch.append((i, f))
                break
            else:
                out[i] = (None, "none")
        if not batch:
            break
        res = ablation_replay(prop, [(violations[i], f["ablation"]) for i, f in batch])
        for (i, f), r in zip(batch, res):
            if r in ("gone", "other"):
                out[i] = (f, "ablation")
            elif r == "inconclusive":
                out[i] = (f, "ablation_inconclusive")
            else:
                pos[i] += 1
    return out


def cpu_seconds(pid):
    try:
        with open("/proc/%d/stat" % pid) as f:
            parts = f.read().rsplit(")", 1)[1].split()
        return (int(parts[11]) + int(parts[12])) / os.sysconf("SC_CLK_TCK")
    except Exception:
        return None


def read_inflight(path):
    try:
        with open(path) as f:
            line = f.readline()
        return json.loads(line)
    except Exception:
        return None


def solo_replay(prop, case, fuel=None, cpu_limit=60):
    """Re-run a single case in a fresh process; classify how it ends."""
    os.makedirs(LOGS, exist_ok=True)
    path = os.path.join(LOGS, "solo-%s-%d.json" % (prop, os.getpid()))
    with open(path, "w") as f:
        json.dump({"case": case}, f)
    cmd = [RXV, "replay", "--prop", prop, "--file", path]
    if fuel:
        cmd += ["--fuel", str(fuel)]

    def limits():
        resource.setrlimit(resource.RLIMIT_CPU, (cpu_limit, cpu_limit + 5))

    p = subprocess.run(cmd, stdout=subprocess.PIPE, stderr=subprocess.PIPE, text=True, preexec_fn=limits, env=dict(ENV, RXV_REPO=REPO))
    os.unlink(path)
    if p.returncode < 0:
        sig = -p.returncode
        if sig in (signal.SIGXCPU, signal.SIGKILL):
            return "hang", "CPU-time budget of %ds exceeded (signal %d)" % (cpu_limit, sig)
        name = signal.Signals(sig).name
        detail = "process killed by %s" % name
        if "overflowed its stack" in p.stderr:
            detail += " (stack overflow)"
        return "abort", detail
    if p.returncode == 1:
        return "violated", p.stdout.strip()[-2000:]
    if p.returncode == 0:
        return "held", ""
    return "inconclusive", p.stdout.strip()[-500:]


def run_shards(prop, tier, seed, outdir, extra_args, wall_cap, nshards=None):
    """Run one worker per shard under the watchdogs. Returns (reports, incidents)."""
    fuel = cfg(prop, "fuel")
    cap = cfg(prop, "quick_cap" if tier == "quick" else "thorough_cap")
    nshards = nshards or NPROC
    procs = {}
    excluded = {i: [] for i in range(nshards)}
    incidents = []
    restarts = {i: 0 for i in range(nshards)}

    def spawn(i):
        out = os.path.join(outdir, "shard%d.json" % i)
        for suffix in ("", ".inflight", ".hashes"):
            try:
                os.unlink(out + suffix)
            except FileNotFoundError:
                pass
        cmd = [RXV, "run", "--prop", prop, "--tier", tier, "--seed", str(seed), "--shard", str(i), "--nshards", str(nshards), "--out", out, "--time-cap", str(cap)] + extra_args
        if fuel:
            cmd += ["--fuel", str(fuel)]
        if excluded[i]:
            cmd += ["--exclude-seq", ",".join(map(str, excluded[i]))]
        errf = open(out + ".stderr", "w")
        p = subprocess.Popen(cmd, stdout=subprocess.DEVNULL, stderr=errf, env=dict(ENV, RXV_REPO=REPO))
        procs[i] = {"p": p, "out": out, "last_seq": None, "stuck_cpu": 0.0, "last_cpu": 0.0, "t0": time.time()}

    for i in range(nshards):
        spawn(i)
    CPU_BUDGET = 25.0
    MAX_TRIAGE = 3  # confirmed hangs / aborts that are re-run alone; after that shards are not restarted

    def confirmed():
        return sum(1 for inc in incidents if inc.get("solo") in ("hang", "abort"))

    t_start = time.time()
    reports = {}
    while procs:
        time.sleep(0.25)
        if confirmed() >= MAX_TRIAGE:
            # enough confirmed hangs / aborts: the verdict is clear, stop burning CPU
            for i in list(procs):
                procs[i]["p"].kill()
                procs[i]["p"].wait()
                del procs[i]
            break
        for i in list(procs):
            st = procs[i]
            rc = st["p"].poll()
            if rc is None:
                # CPU-time budget per case (virtual time of the worker; independent of machine load)
                inf = read_inflight(st["out"] + ".inflight")
                cpu = cpu_seconds(st["p"].pid)
                if inf and cpu is not None:
                    if inf.get("seq") == st["last_seq"]:
                        st["stuck_cpu"] += cpu - st["last_cpu"]
                    else:
                        st["stuck_cpu"] = 0.0
                        st["last_seq"] = inf.get("seq")
                    st["last_cpu"] = cpu
                    if st["stuck_cpu"] > CPU_BUDGET:
                        st["p"].kill()
                        st["p"].wait()
                        del procs[i]
                        if confirmed() >= MAX_TRIAGE:
                            incidents.append({"shard": i, "seq": inf["seq"], "case": inf["case"], "first": "cpu_budget", "solo": "not_rerun", "detail": "CPU budget exceeded; not re-run alone because %d hangs / aborts were already confirmed" % MAX_TRIAGE})
                            continue
                        kind, detail = solo_replay(prop, inf["case"], fuel=fuel, cpu_limit=40)
                        incidents.append({"shard": i, "seq": inf["seq"], "case": inf["case"], "first": "cpu_budget", "solo": kind, "detail": detail})
                        excluded[i].append(inf["seq"])
                        restarts[i] += 1
                        if restarts[i] <= 3 and confirmed() < MAX_TRIAGE:
                            spawn(i)
                        continue
                if time.time() - t_start > wall_cap:
                    st["p"].kill()
                    st["p"].wait()
                    incidents.append({"shard": i, "first": "wall_clock_watchdog", "solo": "inconclusive", "detail": "wall-clock watchdog of %ds fired" % wall_cap})
                    del procs[i]
                continue
            del procs[i]
            if rc == 0 and os.path.exists(st["out"]):
                with open(st["out"]) as f:
                    reports[i] = json.load(f)
                continue
            # the worker died: which case was in flight?
            inf = read_inflight(st["out"] + ".inflight")
            try:
                err = open(st["out"] + ".stderr").read()[-1500:]
            except Exception:
                err = ""
            if inf:
                if confirmed() >= MAX_TRIAGE:
                    incidents.append({"shard": i, "seq": inf["seq"], "case": inf["case"], "first": "worker exit %s" % rc, "solo": "not_rerun", "detail": "worker died; not re-run alone because %d hangs / aborts were already confirmed" % MAX_TRIAGE})
                    continue
                kind, detail = solo_replay(prop, inf["case"], fuel=fuel, cpu_limit=40)
                incidents.append({"shard": i, "seq": inf["seq"], "case": inf["case"], "first": "worker exit %s" % rc, "solo": kind, "detail": detail, "stderr": err})
                excluded[i].append(inf["seq"])
                restarts[i] += 1
                if restarts[i] <= 3 and confirmed() < MAX_TRIAGE:
                    spawn(i)
            else:
                incidents.append({"shard": i, "first": "worker exit %s before any case" % rc, "solo": "inconclusive", "detail": err})
    return reports, incidents


def run_lanes(prop, seed, outdir):
    """Sanitizer lanes of the thorough tier (C05: Miri + ASan on the hostile workload; C18: Miri +
    TSan on threaded histories). Returns (summary dict, list of violations)."""
    lanes = []
    nightly_env = dict(ENV)
    cfgflag = "--cfg regexml_verif"
    tgt = "x86_64-unknown-linux-gnu"
    if prop == "C05":
        lanes = [
            ("asan", "mem", 40000, dict(RUSTFLAGS=cfgflag + " -Zsanitizer=address -Cforce-frame-pointers=yes", ASAN_OPTIONS="detect_leaks=1:halt_on_error=1:abort_on_error=0"), ["cargo", "+nightly", "build", "--offline", "--release", "--target", tgt]),
            ("miri", "mem", 60, dict(MIRIFLAGS="-Zmiri-disable-isolation -Zmiri-tree-borrows"), None),
        ]
    elif prop == "C18":
        lanes = [
            ("tsan", "threads", 500, dict(RUSTFLAGS=cfgflag + " -Zsanitizer=thread", TSAN_OPTIONS="halt_on_error=1"), ["cargo", "+nightly", "build", "--offline", "--release", "-Zbuild-std", "--target", tgt]),
            ("miri", "threads", 2, dict(MIRIFLAGS="-Zmiri-disable-isolation -Zmiri-tree-borrows"), None),
        ]
    summary = {}
    violations = []
    for name, kind, n, env_extra, build_cmd in lanes:
        tdir = os.path.join(VERIF, "target", name)
        env = dict(nightly_env, CARGO_TARGET_DIR=tdir, **{k: v for k, v in env_extra.items() if k != "MIRIFLAGS"})
        t0 = time.time()
        if build_cmd:
            b = subprocess.run(build_cmd, cwd=HARNESS, env=env, stdout=subprocess.PIPE, stderr=subprocess.STDOUT, text=True)
            if b.returncode != 0:
                summary[name] = {"status": "unavailable: build failed", "detail": b.stdout[-400:]}
                continue
            binary = [os.path.join(tdir, tgt, "release", "rxv")]
        else:
            binary = None
        procs = []
        for k in range(NPROC):
            logp = os.path.join(outdir, "lane-%s-%s-%d.log" % (prop, name, k))
            lf = open(logp, "w")
            if binary:
                cmd = binary + ["lane", "--kind", kind, "--n", str(n), "--seed", str(seed * 100 + k)]
                penv = env
            else:
                penv = dict(env, MIRIFLAGS=env_extra["MIRIFLAGS"] + " -Zmiri-seed=%d" % (seed * 100 + k))
                # a small step limit: one engine step costs ~0.1 ms under the interpreter
                cmd = ["cargo", "+nightly", "miri", "run", "--offline", "--", "lane", "--kind", kind, "--n", str(n), "--seed", str(seed * 100 + k), "--fuel", "30000"]
            procs.append((subprocess.Popen(cmd, cwd=HARNESS, env=penv, stdout=lf, stderr=subprocess.STDOUT), logp, lf))
            if not binary and k == 0:
                # let the first Miri process build the sysroot / crate before the others start
                time.sleep(1)
                try:
                    procs[0][0].wait(timeout=1)
                except subprocess.TimeoutExpired:
                    pass
        cases = calls = 0
        reports = 0
        counters = {}
        done = 0
        for pr, logp, lf in procs:
            try:
                pr.wait(timeout=3600)
            except subprocess.TimeoutExpired:
                pr.kill()
                summary.setdefault(name, {})["timeouts"] = summary.get(name, {}).get("timeouts", 0) + 1
                continue
            lf.close()
            text = open(logp, errors="replace").read()
            res = None
            for line in text.splitlines():
                if line.startswith("LANE-RESULT "):
                    res = json.loads(line[len("LANE-RESULT "):])
            san = any(m in text for m in ("ERROR: AddressSanitizer", "ERROR: LeakSanitizer", "WARNING: ThreadSanitizer", "Undefined Behavior", "error: unsupported operation", "data race", "memory leaked"))
            if san or (pr.returncode != 0 and res is None):
                reports += 1
                violations.append({"property": prop, "kind": "sanitizer_report_%s" % name, "observed": "see log %s: %s" % (logp, text[-600:]), "expected": "no sanitizer report", "case": {"pattern": "", "flags": "", "input": "", "aux": "lane %s seed %d" % (name, seed * 100 + len(violations))}, "original_case": {}, "shrink_complete": False, "facts": {"has_ast": False, "lane": name, "log": logp}})
            if res:
                done += 1
                cases += res["cases"]
                calls += res["engine_calls"]
                for kk, vv in res["counters"].items():
                    counters[kk] = counters.get(kk, 0) + vv
                for v in res["violations"]:
                    violations.append({"property": prop, "kind": v["kind"], "observed": v["observed"], "expected": "as on the ordinary build", "case": v["case"], "original_case": v["case"], "shrink_complete": False, "facts": {"has_ast": False, "lane": name}})
        summary.setdefault(name, {}).update({"status": "ran", "processes": done, "cases": cases, "engine_calls": calls, "sanitizer_reports": reports, "counters": counters, "wall_s": round(time.time() - t0, 1)})
    return summary, violations


def block_table_fresh(outdir):
    """C10: the checked-in block.rs equals the output of the repository's own generator
    (regexml-ucd-blocks) modulo formatting. Returns (status string, violation or None)."""
    import re
    env = dict(ENV, CARGO_TARGET_DIR=os.path.join(VERIF, "target", "ucd"))
    p = subprocess.run(["cargo", "run", "-q", "--offline", "-p", "regexml-ucd-blocks"], cwd=REPO, env=env, stdout=subprocess.PIPE, stderr=subprocess.PIPE, text=True)
    if p.returncode != 0:
        return "generator could not be run: " + p.stderr[-300:], None
    try:
        cur = open(os.path.join(REPO, "regexml", "src", "block.rs")).read()
    except OSError as e:
        return "block.rs unreadable: %s" % e, None

    def norm(t):
        return re.sub(r",\]", "]", re.sub(r"\s+", "", t))

    if norm(p.stdout) == norm(cur):
        return "block.rs equals the generator output modulo formatting (%d characters compared)" % len(norm(cur)), None
    logp = os.path.join(outdir, "block_table_diff.txt")
    with open(logp, "w") as f:
        f.write(p.stdout)
    return "STALE", {"property": "C10", "kind": "block_table_differs_from_generator", "observed": "regexml/src/block.rs differs from the output of regexml-ucd-blocks (generator output saved to %s)" % logp, "expected": "identical modulo formatting", "case": {"pattern": "", "flags": "", "input": "", "aux": "generator diff"}, "original_case": {}, "shrink_complete": False, "facts": {"has_ast": False}}


def probe_send_sync(outdir):
    """Compile-time clause of C18. Returns None if Regex is Send + Sync, else a violation record;
    raises RuntimeError when the probe cannot be built for another reason."""
    pdir = os.path.join(HARNESS, "probe_send_sync")
    env = dict(ENV, CARGO_TARGET_DIR=os.path.join(VERIF, "target", "probe"))
    p = subprocess.run(["cargo", "check", "--offline"], cwd=pdir, env=env, stdout=subprocess.PIPE, stderr=subprocess.STDOUT, text=True)
    if p.returncode == 0:
        return None
    text = p.stdout
    if "cannot be sent between threads safely" in text or "cannot be shared between threads safely" in text or ("E0277" in text and ("Send" in text or "Sync" in text)):
        logp = os.path.join(outdir, "send_sync_probe.log")
        with open(logp, "w") as f:
            f.write(text)
        return {"property": "C18", "kind": "regex_not_send_sync", "observed": "the probe crate asserting Regex: Send + Sync does not compile: " + text[-700:], "expected": "Regex is Send + Sync", "case": {"pattern": "", "flags": "", "input": "", "aux": "compile-time probe"}, "original_case": {}, "shrink_complete": False, "facts": {"has_ast": False, "log": logp}}
    raise RuntimeError(text[-1500:])


def union_hashes(outdirs, n):
    seen = set()
    for outdir in outdirs:
      for i in range(n):
        p = os.path.join(outdir, "shard%d.json.hashes" % i)
        if os.path.exists(p):
            a = array.array("Q")
            with open(p, "rb") as f:
                data = f.read()
            a.frombytes(data[: len(data) // 8 * 8])
            seen.update(a)
    return len(seen)


def write_evidence(prop, ev):
    os.makedirs(os.path.join(VERIF, "evidence"), exist_ok=True)
    path = os.path.join(VERIF, "evidence", "%s.json" % prop)
    with open(path, "w") as f:
        json.dump(ev, f, indent=1, ensure_ascii=True)
    return path


def describe_case(c):
    s = "pattern=%s flags=%s input=%s" % (json.dumps(c.get("pattern")), json.dumps(c.get("flags")), json.dumps(c.get("input")))
    if "replacement" in c:
        s += " replacement=%s" % json.dumps(c["replacement"])
    if "pattern2" in c:
        s += " pattern2=%s" % json.dumps(c["pattern2"])
    if c.get("dialect") == "xsd":
        s += " dialect=xsd"
    return s


def check(prop, tier, seed, record_canaries=False):
    t0 = time.time()
    if not build():
        return 2
    st = selftest()
    if st is None:
        log("INCONCLUSIVE property=%s the oracle self-test failed; no verdict is given" % prop)
        return 2
    known = load_known()
    outdir = os.path.join(LOGS, "%s-%s" % (prop, tier))
    shutil.rmtree(outdir, ignore_errors=True)
    os.makedirs(outdir, exist_ok=True)
    # known-finding witnesses of this property are replayed on every run (shard 0)
    corpus = []
    for f in known["findings"]:
        if prop in f.get("properties", []) or f.get("property") == prop:
            for w in f.get("witnesses", []):
                if w.get("property", prop) == prop:
                    case = dict(w["case"])
                    rep = case.pop("pattern_repeat", None)
                    if rep:
                        case["pattern"] = rep["open"] * rep["depth"] + rep["body"] + rep["close"] * rep["depth"]
                    corpus.append(case)
    corpus_path = os.path.join(outdir, "corpus.json")
    with open(corpus_path, "w") as f:
        json.dump(corpus, f)
    cap = cfg(prop, "quick_cap" if tier == "quick" else "thorough_cap")
    # phase 1, "canary": the workload at a fixed seed and a fixed number of logical shards, so that
    # the very same cases are executed on every run and every machine; failures in it are attributed
    # by exact identity against known_canaries.json. phase 2, "seeded": the workload at VERIF_SEED;
    # failures in it are attributed through the structural signatures of known_findings.json.
    can_dir = os.path.join(outdir, "canary")
    os.makedirs(can_dir, exist_ok=True)
    can_reports, can_incidents = run_shards(prop, "quick", CANARY_SEED, can_dir, ["--corpus", corpus_path], wall_cap=cap * 10 + 120, nshards=CANARY_SHARDS)
    if record_canaries:
        return record(prop, known, can_reports, can_incidents)
    if sum(1 for inc in can_incidents if inc.get("solo") in ("hang", "abort")) >= 3:
        reports, incidents = {}, []  # the canary phase already confirmed three hangs / aborts
    else:
        reports, incidents = run_shards(prop, tier, seed, outdir, [], wall_cap=cap * 10 + 120)
    incidents = can_incidents + incidents
    n_seeded_shards = len(reports)
    canary_violation_ids = set()
    for i, r in can_reports.items():
        for v in r["violations"]:
            canary_violation_ids.add(id(v))
        reports["canary%d" % i] = r

    # ---- merge ----
    evaluations = sum(r["evaluations"] for r in reports.values())
    held = sum(r["held"] for r in reports.values())
    inconclusive = {}
    counters = {}
    maxima = {}
    samples = []
    violations = []
    notes = []
    strata = {}
    for i in sorted(reports, key=str):
        r = reports[i]
        for k, v in r["inconclusive"].items():
            inconclusive[k] = inconclusive.get(k, 0) + v
        for k, v in r["counters"].items():
            counters[k] = counters.get(k, 0) + v
        for k, v in r["maxima"].items():
            maxima[k] = max(maxima.get(k, 0), v)
        if len(samples) < 12:
            samples.extend(r["samples"][: max(1, 12 // max(1, len(reports)))])
        violations.extend(r["violations"])
        notes.extend(r["notes"])
        for k, v in (r.get("exhaustive") or {}).items():
            if isinstance(v, dict):
                d = strata.setdefault(k, {})
                for kk, vv in v.items():
                    if kk.endswith("_this_shard") and isinstance(vv, int):
                        d[kk.replace("_this_shard", "_all_shards")] = d.get(kk.replace("_this_shard", "_all_shards"), 0) + vv
                    else:
                        d[kk] = vv
            elif isinstance(v, int) and k.endswith("_this_shard"):
                strata[k.replace("_this_shard", "_all_shards")] = strata.get(k.replace("_this_shard", "_all_shards"), 0) + v
            else:
                strata[k] = v
    distinct = union_hashes([outdir, can_dir], max(NPROC, CANARY_SHARDS))
    max_steps = max([r.get("max_engine_steps_per_call", 0) for r in reports.values()] + [0])
    engine_calls = sum(r.get("engine_calls", 0) for r in reports.values())
    truncated = any(r.get("truncated") for r in reports.values())
    rule = next((r.get("rule") for r in reports.values() if r.get("rule")), "")

    send_sync = None
    if prop == "C18":
        try:
            v = probe_send_sync(outdir)
            send_sync = "Regex: Send + Sync holds (probe crate compiles)" if v is None else "VIOLATED"
            if v:
                violations.append(v)
        except RuntimeError as e:
            log("BUILD-FAILED: the Send + Sync probe crate does not build for an unrelated reason:\n" + str(e))
            return 2
    block_table = None
    if prop == "C10":
        block_table, v = block_table_fresh(outdir)
        if v:
            violations.append(v)
    lane_summary = {}
    if tier == "thorough" and prop in ("C05", "C18") and not os.environ.get("VERIF_NO_LANES"):
        lane_summary, lane_viol = run_lanes(prop, seed, outdir)
        violations.extend(lane_viol)
    # incidents: aborts / hangs observed by the watchdogs
    for inc in incidents:
        if inc["solo"] in ("abort", "hang"):
            violations.append({
                "property": prop, "kind": "process_abort" if inc["solo"] == "abort" else "hang_cpu_budget",
                "observed": inc["detail"], "expected": "the call returns", "case": inc["case"], "original_case": inc["case"],
                "shrink_complete": False,
                "facts": {"has_ast": False, "pattern_len": len(inc["case"].get("pattern", "")), "abort_detail": inc["detail"], "stack_overflow": "stack overflow" in inc["detail"]},
            })
        elif inc["solo"] == "violated":
            notes.append("worker incident reproduced as an ordinary violation in a fresh process: %s" % inc["detail"][:300])
        else:
            inconclusive["incident_" + inc["first"].split()[0]] = inconclusive.get("incident_" + inc["first"].split()[0], 0) + 1
            notes.append("incident not reproduced in a fresh process (%s): %s" % (inc["first"], inc["detail"][:300]))

    # ---- triage against known findings ----
    os.makedirs(os.path.join(VERIF, "replays"), exist_ok=True)
    known_hits = {}
    unknown = []
    seen_min = set()
    canary_known = load_canaries().get(prop, {})
    canary_listed_seen = 0
    seeded_witnesses = []
    attribution_how = {}
    for v in violations:
        key = (v["kind"], json.dumps(v["case"], sort_keys=True))
        if key in seen_min:
            continue
        seen_min.add(key)
        hit = None
        if id(v) in canary_violation_ids:
            # exact identity: this very (kind, pattern, flags, ...) must be listed
            fid = canary_known.get(canary_key(v))
            if fid:
                hit = next((f for f in known["findings"] if f["id"] == fid and f.get("status") == "open"), None)
                canary_listed_seen += 1
            else:
                v = dict(v, canary=True)
            if hit:
                known_hits.setdefault(hit["id"], {"finding": hit, "count": 0, "example": v})
                known_hits[hit["id"]]["count"] += 1
            else:
                unknown.append(v)
        else:
            seeded_witnesses.append(v)
    # seeded phase: structural signature, confirmed by switching off the blamed mechanism (hook H5)
    pending = []
    for v, (hit, how) in zip(seeded_witnesses, attribute(prop, known, seeded_witnesses)):
        if hit:
            attribution_how[how] = attribution_how.get(how, 0) + 1
            known_hits.setdefault(hit["id"], {"finding": hit, "count": 0, "example": v})
            known_hits[hit["id"]]["count"] += 1
        elif not v.get("shrink_complete", True):
            pending.append(v)
        else:
            attribution_how[how] = attribution_how.get(how, 0) + 1
            unknown.append(v)
    # witnesses the workers did not minimise (their per-shard budget was used up) and that no
    # finding explains as they stand: minimise them now and try once more on the minimal form
    if pending:
        reminimised = reminimise(prop, pending[:400], outdir)
        second = attribute(prop, known, reminimised)
        for v, (hit, how) in zip(reminimised, second):
            how = how + "_after_reminimisation"
            attribution_how[how] = attribution_how.get(how, 0) + 1
            if hit:
                known_hits.setdefault(hit["id"], {"finding": hit, "count": 0, "example": v})
                known_hits[hit["id"]]["count"] += 1
            else:
                unknown.append(v)
        for v in pending[400:]:
            attribution_how["none"] = attribution_how.get("none", 0) + 1
            unknown.append(v)

    for fid, h in sorted(known_hits.items()):
        log("KNOWN-FINDING: property=%s %s %s (seen on %d distinct minimised witnesses this run, e.g. %s)" % (prop, fid, h["finding"]["what_fails"], h["count"], describe_case(h["example"]["case"])))

    replay_paths = []
    for n, v in enumerate(unknown[:10]):
        h = int(hashlib.sha1((json.dumps(v["case"], sort_keys=True) + v["kind"]).encode()).hexdigest()[:12], 16) % (10 ** 10)
        path = os.path.join(VERIF, "replays", "%s-%s-%010d.json" % (prop, v["kind"], h))
        with open(path, "w") as f:
            json.dump(v, f, indent=1)
        replay_paths.append(path)
        log("VIOLATION property=%s replay=%s" % (prop, path))
        log("  %skind=%s %s observed=%s expected=%s" % ("[fixed-seed canary case, not in known_canaries.json] " if v.get("canary") else "", v["kind"], describe_case(v["case"]), json.dumps(v["observed"])[:300], json.dumps(v["expected"])[:300]))
    if len(unknown) > 10:
        log("  (+%d further distinct unattributed witnesses not listed)" % (len(unknown) - 10))

    # ---- sufficiency of what was observed ----
    problems = []
    if n_seeded_shards < NPROC or len(can_reports) < CANARY_SHARDS:
        problems.append("only %d of %d seeded and %d of %d canary shards completed" % (n_seeded_shards, NPROC, len(can_reports), CANARY_SHARDS))
    if held < cfg(prop, "min_held"):
        problems.append("held on only %d cases (floor %d)" % (held, cfg(prop, "min_held")))
    if distinct < cfg(prop, "min_distinct"):
        problems.append("only %d distinct non-trivial cases (floor %d)" % (distinct, cfg(prop, "min_distinct")))
    for k, need in REQUIRED.get(prop, {}).items():
        if counters.get(k, 0) < need:
            problems.append("stratum '%s' observed %d times (needs %d)" % (k, counters.get(k, 0), need))

    wall = time.time() - t0
    coverage = {
        "evaluations": evaluations,
        "distinct_nontrivial": distinct,
        "rule": rule,
        "samples": samples[:12] if samples else [{"note": "no samples"}],
        "verdicts": {"held": held, "violated_cases": sum(r["violations_total"] for r in reports.values()), "inconclusive": inconclusive},
        "counters": counters,
        "maxima": maxima,
        "strata": strata,
        "engine_calls": engine_calls,
        "max_engine_steps_per_call": max_steps,
        "shards": len(reports),
        "truncated_by_time_cap": truncated,
        "known_findings_seen": {k: h["count"] for k, h in known_hits.items()},
        "seeded_phase_attribution": dict(attribution_how, note="'ablation' = signature matched and the witness stopped failing with the blamed mechanism switched off (hook H5); 'signature' = the finding has no ablation switch; 'ablation_inconclusive' = the ablated re-run could not be judged (step limit), attributed on the signature alone; 'none' = reported as VIOLATION"),
        "canary_phase": {"seed": CANARY_SEED, "logical_shards": CANARY_SHARDS, "cases": sum(r["evaluations"] for r in can_reports.values()), "listed_known_failures": len(canary_known), "listed_known_failures_seen_again": canary_listed_seen, "attribution": "exact identity (kind, pattern, flags, dialect, replacement, aux)"},
        "unattributed_violations": len(unknown),
        "incidents": [{k: inc.get(k) for k in ("first", "solo", "detail")} for inc in incidents][:10],
        "send_sync_probe": send_sync if prop == "C18" else "n/a",
        "block_table_vs_generator": block_table if prop == "C10" else "n/a",
        "sanitizer_lanes": lane_summary if lane_summary else ("not run in the quick tier (build cost); see the thorough tier" if prop in ("C05", "C18") else "not applicable: no unsafe code, threads or shared state behind this property"),
        "oracle_selftest": {k: st.get(k) for k in ("repo_expectations_checked", "repo_expectations_found", "roundtrip_cases")},
        "insufficient": problems,
        "notes": notes[:10],
    }
    if "exhaustive_small" in strata or any(isinstance(v, dict) and v.get("exhaustive") for v in strata.values()):
        coverage["exhaustive_strata_complete"] = not truncated
    ev = {
        "property_id": prop,
        "tier": tier,
        "seed": seed,
        "level": "exploration",
        "coverage": coverage,
        "assumptions": [
            "reference model / oracles of /verif/harness are correct (self-validated against %s is_match expectations of the repository's own suite on this run)" % st.get("repo_expectations_checked"),
            "ICU's Unicode data (icu_properties) is correct; the oracle reads it through a different API than the engine",
            "the verification hooks (cfg regexml_verif) do not change behaviour",
        ],
        "wall_s": round(wall, 2),
        "violations": len(unknown),
    }
    path = write_evidence(prop, ev)
    log("%s %s seed=%d: %d cases, %d held, %d distinct non-trivial, %d inconclusive, %d known-finding witnesses, %d unattributed; evidence %s (%.1fs)" % (
        prop, tier, seed, evaluations, held, distinct, sum(inconclusive.values()), sum(h["count"] for h in known_hits.values()), len(unknown), path, wall))
    if unknown:
        return 1
    if problems:
        log("INCONCLUSIVE property=%s the run observed too little: %s" % (prop, "; ".join(problems)))
        return 2
    return 0


def replay(path):
    if not build():
        return 2
    with open(path) as f:
        v = json.load(f)
    prop = v.get("property") or os.path.basename(path).split("-")[0]
    kind, detail = solo_replay(prop, v["case"], fuel=cfg(prop, "fuel"))
    log("replay %s: %s %s" % (path, kind, detail))
    return {"violated": 1, "abort": 1, "hang": 1, "held": 0}.get(kind, 3)


def main():
    args = sys.argv[1:]
    if not args:
        print(__doc__)
        return 2
    if args[0] == "setup":
        if not build():
            return 2
        st = selftest()
        if st is None:
            return 2
        log("oracle self-test ok: " + json.dumps({k: st[k] for k in ("repo_expectations_checked", "repo_expectations_found", "roundtrip_cases")}))
        return 0
    if args[0] == "replay":
        return replay(args[1])
    prop = args[0]
    tier = os.environ.get("VERIF_TIER", "quick")
    if "--tier" in args:
        tier = args[args.index("--tier") + 1]
    seed = int(os.environ.get("VERIF_SEED", "0") or 0)
    if "--seed" in args:
        seed = int(args[args.index("--seed") + 1])
    return check(prop, tier, seed, record_canaries="--record-canaries" in args)


if __name__ == "__main__":
    sys.exit(main())
