#!/bin/bash
# run the repository's unedited suite (guard off); prints pass/fail totals; exit 0 iff all pass
cd /repo && cargo test --workspace --no-fail-fast --offline 2>&1 | awk '/^test result/ {p+=$4; f+=$6} /FAILED|panicked/ {print} END {print "passed="p" failed="f; exit (f>0 || p<1032)}'
