#!/usr/bin/env python3
"""Evaluate a seeded fault against the checks.

  seeded_eval.py <dir-with-patch.diff+demo.rs+meta.json> [--props C01,C08] [--tier quick] [--all]

Applies the patch to /repo, confirms (a) the repository's own suite still passes, (b) the
demonstration fails with the patch and passes without it, then runs the named checks and reports
which of them raise a VIOLATION. /repo is restored afterwards (git checkout -- .).
"""
import json
import os
import subprocess
import sys

VERIF = os.path.dirname(os.path.dirname(os.path.abspath(__file__)))
REPO = "/repo"


def sh(cmd, **kw):
    return subprocess.run(cmd, shell=True, stdout=subprocess.PIPE, stderr=subprocess.STDOUT, text=True, **kw)


def clean():
    sh("git -C %s checkout -- . && rm -f %s/regexml/tests/zz_seeded_demo.rs" % (REPO, REPO))


def demo(path):
    dst = REPO + "/regexml/tests/zz_seeded_demo.rs"
    sh("cp %s %s" % (path, dst))
    r = sh("cd %s && timeout 900 cargo test --offline -p regexml --test zz_seeded_demo 2>&1 | tail -5" % REPO)
    os.unlink(dst)
    ok = "test result: ok" in r.stdout
    return ok, r.stdout[-600:]


def main():
    d = sys.argv[1].rstrip("/")
    args = sys.argv[2:]
    tier = args[args.index("--tier") + 1] if "--tier" in args else "quick"
    patch = os.path.join(d, "patch.diff")
    meta = json.load(open(os.path.join(d, "meta.json")))
    props = [meta["breaks"]]
    if "--props" in args:
        props = args[args.index("--props") + 1].split(",")
    if "--all" in args:
        props = ["C%02d" % i for i in range(1, 21)]
    st = sh("git -C %s status --short" % REPO).stdout.strip()
    if st:
        print("refusing: /repo is not clean:\n" + st)
        return 2
    out = {"dir": d, "breaks": meta["breaks"], "tier": tier}
    try:
        ok0, _ = demo(os.path.join(d, "demo.rs"))
        out["demo_passes_without_patch"] = ok0
        r = sh("git -C %s apply --3way %s" % (REPO, patch))
        if r.returncode != 0:
            r = sh("git -C %s apply %s" % (REPO, patch))
        if r.returncode != 0:
            out["error"] = "patch does not apply: " + r.stdout[-400:]
            print(json.dumps(out, indent=1))
            return 2
        sh("git -C %s reset -q" % REPO)  # --3way stages; keep it as a working-tree change only
        ok1, tail = demo(os.path.join(d, "demo.rs"))
        out["demo_fails_with_patch"] = not ok1
        r = sh("%s/run/repo_tests.sh" % VERIF)
        out["repo_suite_passes_with_patch"] = r.returncode == 0
        out["repo_suite"] = r.stdout.strip().splitlines()[-1] if r.stdout.strip() else ""
        res = {}
        for p in props:
            r = sh("cd %s && VERIF_SEED=%s timeout 3600 python3 run/check.py %s --tier %s" % (VERIF, os.environ.get("VERIF_SEED", "0"), p, tier))
            viol = [l for l in r.stdout.splitlines() if l.startswith("VIOLATION")]
            detail = [l.strip()[:300] for l in r.stdout.splitlines() if l.startswith("  kind=")][:3]
            res[p] = {"exit": r.returncode, "violations": len(viol), "examples": detail, "summary": r.stdout.strip().splitlines()[-1][:200] if r.stdout.strip() else ""}
        out["checks"] = res
        out["caught_by"] = [p for p, v in res.items() if v["exit"] == 1 and v["violations"] > 0]
    finally:
        clean()
    print(json.dumps(out, indent=1))
    return 0


if __name__ == "__main__":
    sys.exit(main())
