#!/usr/bin/env python3
"""Evaluate a seeded fault against the checks.

  seeded_eval.py <dir-with-patch.diff+demo.rs+meta.json> [--props C01,C08] [--tier quick] [--all]

Applies the patch to /repo, confirms (a) the repository's own suite still passes, (b) the
demonstration fails with the patch and passes without it, then runs the named checks and reports
which of them raise a VIOLATION. /repo is restored afterwards (git checkout -- .).
"""
import json
import os
import subprocess
import sys

VERIF = os.path.dirname(os.path.dirname(os.path.abspath(__file__)))
REPO = "/repo"
SANDBOX = None


def enter_sandbox(tag):
    """Work on private copies instead of /repo and /verif: a git worktree of /repo's HEAD and a copy
    of the harness whose path dependency points at it. Lets several evaluations (and background
    sweeps against /repo) run at the same time. The registered checks never use this mode."""
    global VERIF, REPO, SANDBOX
    root = "/tmp/sv-%s" % tag
    sh("rm -rf %s && mkdir -p %s" % (root, root))
    sh("git -C /repo worktree prune")
    r = sh("git -C /repo worktree add --detach %s/repo HEAD" % root)
    if r.returncode != 0:
        print(r.stdout)
        sys.exit(2)
    sh("mkdir -p %s/verif && cp -r %s/run %s/harness %s/known_findings.json %s/known_canaries.json %s/verif/" % (root, VERIF, VERIF, VERIF, VERIF, root))
    sh("rm -rf %s/verif/harness/target" % root)
    ct = open("%s/verif/harness/Cargo.toml" % root).read().replace('path = "/repo/regexml"', 'path = "%s/repo/regexml"' % root)
    open("%s/verif/harness/Cargo.toml" % root, "w").write(ct)
    # reuse the compiled dependencies of the main target dir
    sh("mkdir -p %s/verif/target && cp -r %s/target/main %s/verif/target/main" % (root, VERIF, root))
    VERIF = root + "/verif"
    REPO = root + "/repo"
    SANDBOX = root
    os.environ["RXV_REPO"] = REPO


def leave_sandbox():
    if SANDBOX:
        sh("git -C /repo worktree remove --force %s/repo" % SANDBOX)
        sh("rm -rf %s" % SANDBOX)


def sh(cmd, **kw):
    return subprocess.run(cmd, shell=True, stdout=subprocess.PIPE, stderr=subprocess.STDOUT, text=True, **kw)


def clean():
    sh("git -C %s checkout -- . && rm -f %s/regexml/tests/zz_seeded_demo.rs" % (REPO, REPO))


def demo(path):
    dst = REPO + "/regexml/tests/zz_seeded_demo.rs"
    sh("cp %s %s" % (path, dst))
    r = sh("cd %s && CARGO_TARGET_DIR=%s timeout 900 cargo test --offline -p regexml --test zz_seeded_demo 2>&1 | tail -5" % (REPO, REPO + "/target"))
    os.unlink(dst)
    ok = "test result: ok" in r.stdout
    return ok, r.stdout[-600:]


def main():
    d = os.path.abspath(sys.argv[1].rstrip("/"))
    args = sys.argv[2:]
    if "--sandbox" in args:
        enter_sandbox(os.path.basename(d))
    tier = args[args.index("--tier") + 1] if "--tier" in args else "quick"
    patch = os.path.join(d, "patch.diff")
    meta = json.load(open(os.path.join(d, "meta.json")))
    props = [meta["breaks"]]
    if "--props" in args:
        props = args[args.index("--props") + 1].split(",")
    if "--all" in args:
        props = ["C%02d" % i for i in range(1, 21)]
    st = sh("git -C %s status --short" % REPO).stdout.strip()
    if st:
        print("refusing: /repo is not clean:\n" + st)
        return 2
    out = {"dir": d, "breaks": meta["breaks"], "tier": tier}
    try:
        ok0, _ = demo(os.path.join(d, "demo.rs"))
        out["demo_passes_without_patch"] = ok0
        r = sh("git -C %s apply --3way %s" % (REPO, patch))
        if r.returncode != 0:
            r = sh("git -C %s apply %s" % (REPO, patch))
        if r.returncode != 0:
            out["error"] = "patch does not apply: " + r.stdout[-400:]
            print(json.dumps(out, indent=1))
            clean()
            leave_sandbox()
            return 2
        sh("git -C %s reset -q" % REPO)  # --3way stages; keep it as a working-tree change only
        ok1, tail = demo(os.path.join(d, "demo.rs"))
        out["demo_fails_with_patch"] = not ok1
        r = sh("cd %s && cargo test --workspace --no-fail-fast --offline 2>&1 | awk '/^test result/ {p+=$4; f+=$6} END {print \"passed=\"p\" failed=\"f; exit (f>0 || p<1032)}'" % REPO)
        out["repo_suite_passes_with_patch"] = r.returncode == 0
        out["repo_suite"] = r.stdout.strip().splitlines()[-1] if r.stdout.strip() else ""
        res = {}
        for p in props:
            r = sh("cd %s && VERIF_SEED=%s timeout 3600 python3 run/check.py %s --tier %s" % (VERIF, os.environ.get("VERIF_SEED", "0"), p, tier))
            viol = [l for l in r.stdout.splitlines() if l.startswith("VIOLATION")]
            detail = [l.strip()[:300] for l in r.stdout.splitlines() if l.startswith("  kind=")][:3]
            res[p] = {"exit": r.returncode, "violations": len(viol), "examples": detail, "summary": r.stdout.strip().splitlines()[-1][:200] if r.stdout.strip() else ""}
        out["checks"] = res
        out["caught_by"] = [p for p, v in res.items() if v["exit"] == 1 and v["violations"] > 0]
    finally:
        clean()
        leave_sandbox()
    print(json.dumps(out, indent=1))
    return 0


if __name__ == "__main__":
    sys.exit(main())
